//! C09 — late or duplicate exchange messages never roll engine state back.
//!
//! A real `EngineState` (2 exchanges x 2 instruments, 6 exchange assets) receives, per *item*
//! (asset balance, open details of one order, instrument top-of-book, instrument last-trade price),
//! timestamped messages in arbitrary order with repetition and equal timestamps: single
//! `BalanceSnapshot`s, `OrderSnapshot`s carrying `Open{..}`, `OrderBookL1` and `PublicTrade` market
//! events and full `AccountEventKind::Snapshot`s (several balances and orders at once). Deliveries go
//! through BOTH entry points: `EngineState::update_from_account / update_from_market` (state backend)
//! and `Engine::process(EngineEvent::..)` (engine backend). After EVERY delivery the monitor reads
//! the public state and decides, per item:
//!   R1 the held exchange timestamp == the greatest timestamp delivered so far for that item
//!      (`*_rolled_back_by_older_message` if the held timestamp moved back,
//!       `*_newer_message_not_applied` if it stayed behind, `*_held_timestamp_ahead_of_every_delivery`)
//!   R2 the held value was delivered with exactly that timestamp (equal timestamps: either one)
//!   R3 an item that just received a message holds something (`*_missing_after_delivery`)
//!   R4 every item not addressed by the delivery is unchanged (`delivery_changed_another_item`)
//! The oracle only remembers what was delivered (timestamp -> values) per item; it never mirrors a
//! guard of the code under test.
//!
//! distinct non-trivial rule: a history with >= 3 deliveries containing at least one delivery that
//! is older than what its item already holds and one that is newer; distinct = FNV-1a hash of
//! (backend, step list).

use barter::{
    EngineEvent,
    engine::{
        Processor,
        state::{order::in_flight_recorder::InFlightRequestRecorder, trading::TradingState},
    },
    execution::AccountStreamEvent,
};
use barter_data::{
    books::Level,
    event::{DataKind, MarketEvent},
    streams::consumer::MarketStreamEvent,
    subscription::{book::OrderBookL1, trade::PublicTrade},
};
use barter_execution::{
    AccountEvent, AccountEventKind, AccountSnapshot, InstrumentAccountSnapshot,
    balance::{AssetBalance, Balance},
    order::{
        Order, OrderKind, TimeInForce,
        id::{ClientOrderId, OrderId},
        state::{Open, OrderState},
    },
};
use barter_instrument::{
    Side,
    asset::AssetIndex,
    exchange::{ExchangeId, ExchangeIndex},
    index::IndexedInstruments,
    instrument::InstrumentIndex,
};
use barter_integration::snapshot::Snapshot;
use rust_decimal::{Decimal, prelude::FromPrimitive};
use serde::{Deserialize, Serialize};
use serde_json::{Value, json};
use std::collections::BTreeMap;
use vharness::{
    Args, Report, Rng, catch,
    fixtures::{self, t},
    fnv1a, run_workers, shrink,
};

const QTY: i64 = 10;
const N_CIDS: usize = 2;

/// One timestamped message: exchange time `t` (ms after the base instant, always >= 1 so that it is
/// after the Unix epoch and after the engine start time) and a value code `v` in 0..=19.
#[derive(Debug, Clone, Copy, PartialEq, Eq, Hash, PartialOrd, Ord, Serialize, Deserialize)]
struct M {
    t: i64,
    v: i64,
}

#[derive(Debug, Clone, Copy, PartialEq, Eq, Hash, PartialOrd, Ord)]
enum Item {
    Bal(usize),
    Ord(usize, usize),
    L1(usize),
    Trade(usize),
}

impl Item {
    fn kind(&self) -> usize {
        match self {
            Item::Bal(_) => 0,
            Item::Ord(..) => 1,
            Item::L1(_) => 2,
            Item::Trade(_) => 3,
        }
    }
}

const KINDS: [&str; 4] = ["balance", "order_open", "l1", "last_trade"];
const CLASSES: [&str; 5] = ["first", "newer", "older", "equal_ts_other_value", "duplicate"];

#[derive(Debug, Clone, PartialEq)]
enum Val {
    Bal(Balance),
    Open(Open),
    L1(OrderBookL1),
    Px(Decimal),
}

fn bal_val(m: M) -> Balance {
    Balance::new(Decimal::new(100_000 + m.v * 7, 2), Decimal::new(50_000 + m.v * 3, 2))
}

fn open_val(m: M) -> Open {
    Open {
        id: OrderId::new(format!("oid{}", m.v)),
        time_exchange: t(m.t),
        filled_quantity: Decimal::from(m.v.rem_euclid(QTY)), // always < QTY: the order stays open
    }
}

fn l1_val(m: M) -> OrderBookL1 {
    let bid = Level::new(Decimal::new(10_000 + m.v * 10, 2), Decimal::new(1 + m.v, 1));
    let ask = Level::new(Decimal::new(10_005 + m.v * 10, 2), Decimal::new(2 + m.v, 1));
    OrderBookL1 {
        last_update_time: t(m.t), // == time_exchange, what every connector produces
        best_bid: if m.v % 5 == 3 { None } else { Some(bid) },
        best_ask: if m.v % 5 == 4 { None } else { Some(ask) },
    }
}

/// multiples of 0.25: exactly representable in f64 and in Decimal
fn trade_px(m: M) -> f64 {
    100.0 + 0.25 * (m.v as f64 + 1.0)
}

fn val_of(item: Item, m: M) -> Val {
    match item {
        Item::Bal(_) => Val::Bal(bal_val(m)),
        Item::Ord(..) => Val::Open(open_val(m)),
        Item::L1(_) => Val::L1(l1_val(m)),
        Item::Trade(_) => Val::Px(Decimal::from_f64(trade_px(m)).expect("exact f64 price")),
    }
}

#[derive(Debug, Clone, PartialEq, Serialize, Deserialize)]
enum Step {
    /// single `BalanceSnapshot`
    Bal { a: usize, m: M },
    /// `OrderSnapshot` with `Open`
    Ord { i: usize, c: usize, m: M },
    /// `OrderBookL1` market event
    L1 { i: usize, m: M },
    /// `PublicTrade` market event
    Trade { i: usize, m: M },
    /// full account snapshot of exchange `e`: balances (asset, msg) and orders (instrument, cid, msg)
    Full { e: usize, bals: Vec<(usize, M)>, ords: Vec<(usize, usize, M)> },
    /// the engine records an in-flight cancel for the order (not an exchange message: held open
    /// details must be unchanged; afterwards reports hit the CancelInFlight arm)
    CancelReq { i: usize, c: usize },
}

impl Step {
    fn touched(&self) -> Vec<(Item, M)> {
        match self {
            Step::Bal { a, m } => vec![(Item::Bal(*a), *m)],
            Step::Ord { i, c, m } => vec![(Item::Ord(*i, *c), *m)],
            Step::L1 { i, m } => vec![(Item::L1(*i), *m)],
            Step::Trade { i, m } => vec![(Item::Trade(*i), *m)],
            Step::Full { bals, ords, .. } => bals
                .iter()
                .map(|(a, m)| (Item::Bal(*a), *m))
                .chain(ords.iter().map(|(i, c, m)| (Item::Ord(*i, *c), *m)))
                .collect(),
            Step::CancelReq { .. } => vec![],
        }
    }
}

// ------------------------------------------------------------------------------------------------
// Topology

struct Topo {
    ins: IndexedInstruments,
    n_assets: usize,
    n_instr: usize,
    asset_exch: Vec<usize>,
    instr_exch: Vec<usize>,
    exch_id: Vec<ExchangeId>,
    /// assets / instruments by exchange index
    assets_of: Vec<Vec<usize>>,
    instr_of: Vec<Vec<usize>>,
}

impl Topo {
    fn new() -> Self {
        // insertion order interleaves the exchanges so that indices are not grouped by exchange
        let ins = IndexedInstruments::new([
            fixtures::spot(ExchangeId::BinanceSpot, "btc", "usdt"),
            fixtures::spot(ExchangeId::Okx, "btc", "usdt"),
            fixtures::spot(ExchangeId::BinanceSpot, "eth", "usdt"),
            fixtures::spot(ExchangeId::Okx, "eth", "btc"),
        ]);
        let exch_id: Vec<ExchangeId> = ins.exchanges().iter().map(|e| e.value).collect();
        let asset_exch: Vec<usize> =
            ins.assets().iter().map(|a| ins.find_exchange_index(a.value.exchange).expect("exchange").index()).collect();
        let instr_exch: Vec<usize> = ins.instruments().iter().map(|i| i.value.exchange.key.index()).collect();
        let n_exch = exch_id.len();
        let assets_of = (0..n_exch).map(|e| (0..asset_exch.len()).filter(|a| asset_exch[*a] == e).collect()).collect();
        let instr_of = (0..n_exch).map(|e| (0..instr_exch.len()).filter(|i| instr_exch[*i] == e).collect()).collect();
        Topo { n_assets: asset_exch.len(), n_instr: instr_exch.len(), ins, asset_exch, instr_exch, exch_id, assets_of, instr_of }
    }

    fn order(&self, i: usize, c: usize, m: M) -> Order<ExchangeIndex, InstrumentIndex, OrderState<AssetIndex, InstrumentIndex>> {
        Order {
            key: fixtures::order_key(self.instr_exch[i], i, &format!("cid{c}")),
            side: Side::Buy,
            price: Decimal::from(100),
            quantity: Decimal::from(QTY),
            kind: OrderKind::Limit,
            time_in_force: TimeInForce::GoodUntilCancelled { post_only: false },
            state: OrderState::active(open_val(m)),
        }
    }

    /// Is the step inside the domain (indices exist, a full snapshot only names items of its own
    /// exchange, timestamps after the epoch / engine start)? Guards `--replay` input.
    fn in_domain(&self, step: &Step) -> bool {
        let m_ok = |m: &M| m.t >= 1 && (0..=19).contains(&m.v);
        match step {
            Step::Bal { a, m } => *a < self.n_assets && m_ok(m),
            Step::Ord { i, c, m } => *i < self.n_instr && *c < N_CIDS && m_ok(m),
            Step::L1 { i, m } | Step::Trade { i, m } => *i < self.n_instr && m_ok(m),
            Step::Full { e, bals, ords } => {
                *e < self.exch_id.len()
                    && bals.iter().all(|(a, m)| *a < self.n_assets && self.asset_exch[*a] == *e && m_ok(m))
                    && ords.iter().all(|(i, c, m)| *i < self.n_instr && self.instr_exch[*i] == *e && *c < N_CIDS && m_ok(m))
            }
            Step::CancelReq { i, c } => *i < self.n_instr && *c < N_CIDS,
        }
    }
}

// ------------------------------------------------------------------------------------------------
// Backends: the two entry points

/// Local receipt time of a market message: a monotone receive clock that is later than every
/// exchange timestamp of the workload (a late message is received late, whatever its exchange
/// time says) - the rule of the property is about EXCHANGE time only.
fn next_receive_time() -> chrono::DateTime<chrono::Utc> {
    static RECV: std::sync::atomic::AtomicI64 = std::sync::atomic::AtomicI64::new(0);
    t(1_000_000 + RECV.fetch_add(1, std::sync::atomic::Ordering::Relaxed))
}

enum Backend {
    State(Box<fixtures::DefState>),
    Engine(Box<fixtures::TestEngine>),
}

impl Backend {
    fn new(topo: &Topo, via_engine: bool) -> Self {
        if via_engine {
            Backend::Engine(Box::new(fixtures::engine_with_rec_txs(&topo.ins, TradingState::Disabled).0))
        } else {
            Backend::State(Box::new(fixtures::default_state(&topo.ins, TradingState::Disabled)))
        }
    }

    fn state(&self) -> &fixtures::DefState {
        match self {
            Backend::State(s) => s,
            Backend::Engine(e) => &e.state,
        }
    }

    fn state_mut(&mut self) -> &mut fixtures::DefState {
        match self {
            Backend::State(s) => s,
            Backend::Engine(e) => &mut e.state,
        }
    }

    fn account(&mut self, event: AccountEvent) {
        match self {
            Backend::State(s) => {
                let _ = s.update_from_account(&event);
            }
            Backend::Engine(e) => {
                let _ = e.process(EngineEvent::Account(AccountStreamEvent::Item(event)));
            }
        }
    }

    fn market(&mut self, event: MarketEvent<InstrumentIndex, DataKind>) {
        match self {
            Backend::State(s) => s.update_from_market(&event),
            Backend::Engine(e) => {
                let _ = e.process(EngineEvent::Market(MarketStreamEvent::Item(event)));
            }
        }
    }

    fn apply(&mut self, topo: &Topo, step: &Step) {
        match step {
            Step::Bal { a, m } => self.account(AccountEvent {
                exchange: ExchangeIndex(topo.asset_exch[*a]),
                kind: AccountEventKind::BalanceSnapshot(Snapshot(AssetBalance {
                    asset: AssetIndex(*a),
                    balance: bal_val(*m),
                    time_exchange: t(m.t),
                })),
            }),
            Step::Ord { i, c, m } => self.account(AccountEvent {
                exchange: ExchangeIndex(topo.instr_exch[*i]),
                kind: AccountEventKind::OrderSnapshot(Snapshot(topo.order(*i, *c, *m))),
            }),
            Step::L1 { i, m } => self.market(MarketEvent {
                time_exchange: t(m.t),
                time_received: next_receive_time(),
                exchange: topo.exch_id[topo.instr_exch[*i]],
                instrument: InstrumentIndex(*i),
                kind: DataKind::OrderBookL1(l1_val(*m)),
            }),
            Step::Trade { i, m } => self.market(MarketEvent {
                time_exchange: t(m.t),
                time_received: next_receive_time(),
                exchange: topo.exch_id[topo.instr_exch[*i]],
                instrument: InstrumentIndex(*i),
                kind: DataKind::Trade(PublicTrade { id: format!("pt{}-{}", m.t, m.v), price: trade_px(*m), amount: 1.0, side: Side::Buy }),
            }),
            Step::Full { e, bals, ords } => {
                // orders grouped per instrument in first-appearance order, order of reports kept
                let mut instruments: Vec<InstrumentAccountSnapshot> = Vec::new();
                for (i, c, m) in ords {
                    let order = topo.order(*i, *c, *m);
                    match instruments.iter_mut().find(|s| s.instrument == InstrumentIndex(*i)) {
                        Some(s) => s.orders.push(order),
                        None => instruments.push(InstrumentAccountSnapshot { instrument: InstrumentIndex(*i), orders: vec![order] }),
                    }
                }
                self.account(AccountEvent {
                    exchange: ExchangeIndex(*e),
                    kind: AccountEventKind::Snapshot(AccountSnapshot {
                        exchange: ExchangeIndex(*e),
                        balances: bals
                            .iter()
                            .map(|(a, m)| AssetBalance { asset: AssetIndex(*a), balance: bal_val(*m), time_exchange: t(m.t) })
                            .collect(),
                        instruments,
                    }),
                })
            }
            Step::CancelReq { i, c } => {
                let req = fixtures::req_cancel(topo.instr_exch[*i], *i, &format!("cid{c}"), None);
                match self {
                    Backend::State(s) => s.record_in_flight_cancel(&req),
                    Backend::Engine(e) => e.state.record_in_flight_cancel(&req),
                }
            }
        }
    }
}

/// Everything the property talks about, read through public fields: item -> held (timestamp, value).
/// A tracked order without open details maps to `None`.
type Obs = BTreeMap<Item, Option<(i64, Val)>>;

fn observe(topo: &Topo, state: &fixtures::DefState) -> Obs {
    let mut obs = Obs::new();
    for a in 0..topo.n_assets {
        if let Some(b) = &state.assets.asset_index(&AssetIndex(a)).balance {
            obs.insert(Item::Bal(a), Some((fixtures::ms_of(b.time), Val::Bal(b.value))));
        }
    }
    for i in 0..topo.n_instr {
        let s = state.instruments.instrument_index(&InstrumentIndex(i));
        obs.insert(Item::L1(i), Some((fixtures::ms_of(s.data.l1.last_update_time), Val::L1(s.data.l1.clone()))));
        if let Some(p) = &s.data.last_traded_price {
            obs.insert(Item::Trade(i), Some((fixtures::ms_of(p.time), Val::Px(p.value))));
        }
        for (cid, order) in s.orders.0.iter() {
            let c = cid.0.trim_start_matches("cid").parse::<usize>().unwrap_or(usize::MAX);
            obs.insert(Item::Ord(i, c), order.state.open_meta().map(|o| (fixtures::ms_of(o.time_exchange), Val::Open(o.clone()))));
        }
    }
    obs
}

// ------------------------------------------------------------------------------------------------
// Running one history under the monitor

#[derive(Default)]
struct Stats {
    steps: u64,
    deliveries: u64,
    checks: u64,
    cells: BTreeMap<String, u64>,
    older: u64,
    newer: u64,
}

impl Stats {
    fn hit(&mut self, cell: &str) {
        *self.cells.entry(cell.to_string()).or_insert(0) += 1;
    }
}

type Fail = (String, String, usize);

fn run_history(topo: &Topo, via_engine: bool, steps: &[Step], stats: &mut Stats) -> Result<(), Fail> {
    let mut backend = Backend::new(topo, via_engine);
    // the oracle's whole memory: per item every (timestamp, value) delivered so far
    let mut delivered: BTreeMap<Item, Vec<(i64, Val)>> = BTreeMap::new();
    let mut last_via: BTreeMap<Item, bool> = BTreeMap::new(); // balance last delivered via full snapshot?
    let mut before = observe(topo, backend.state());
    let mut prev_item: Option<Item> = None;

    for (idx, step) in steps.iter().enumerate() {
        let touched = step.touched();

        // classify (coverage only)
        let is_full = matches!(step, Step::Full { .. });
        for (item, m) in &touched {
            let k = KINDS[item.kind()];
            let dl = delivered.get(item);
            let max = dl.and_then(|d| d.iter().map(|(tt, _)| *tt).max());
            let val = val_of(*item, *m);
            let class = match max {
                None => 0,
                Some(mx) if m.t > mx => 1,
                Some(mx) if m.t < mx => 2,
                Some(_) => {
                    if dl.unwrap().iter().any(|(tt, v)| *tt == m.t && *v == val) {
                        4
                    } else {
                        3
                    }
                }
            };
            if class == 1 {
                stats.newer += 1;
            }
            if class == 2 {
                stats.older += 1;
            }
            stats.hit(&format!("{k}:{}", CLASSES[class]));
            if is_full && class == 2 {
                stats.hit(if matches!(item, Item::Bal(_)) { "full_snapshot:older_balance" } else { "full_snapshot:older_order" });
            }
            if let Item::Bal(_) = item {
                match (last_via.get(item), is_full) {
                    (Some(false), true) => stats.hit("balance:full_after_single"),
                    (Some(true), false) => stats.hit("balance:single_after_full"),
                    _ => {}
                }
                last_via.insert(*item, is_full);
            }
            if let Item::Ord(i, c) = item {
                // is the order currently marked cancel-in-flight by an earlier CancelReq step?
                let cid = ClientOrderId::new(format!("cid{c}"));
                if let Some(s) = backend.state().instruments.instrument_index(&InstrumentIndex(*i)).orders.0.get(&cid) {
                    if fixtures::active_state_name(&s.state) == "CancelInFlight" {
                        stats.hit(match class {
                            1 => "order_open:cancel_in_flight_newer",
                            2 => "order_open:cancel_in_flight_older",
                            _ => "order_open:cancel_in_flight_equal",
                        });
                    }
                }
            }
            let e = match item {
                Item::Bal(a) => topo.asset_exch[*a],
                Item::Ord(i, _) | Item::L1(i) | Item::Trade(i) => topo.instr_exch[*i],
            };
            stats.hit(&format!("routing:exchange{e}"));
            if prev_item.is_some_and(|p| p != *item) {
                stats.hit("interleaved_items");
            }
            prev_item = Some(*item);
        }
        if let Step::Full { bals, ords, .. } = step {
            if bals.len() >= 2 {
                stats.hit("full_snapshot:multi_balance");
            }
            if !ords.is_empty() {
                stats.hit("full_snapshot:with_orders");
            }
            if !ords.is_empty() && !bals.is_empty() {
                stats.hit("full_snapshot:balances_and_orders");
            }
        }

        // deliver to the real code
        if let Err(msg) = catch(|| backend.apply(topo, step)) {
            return Err(("panic_in_engine_state_update".into(), format!("step #{idx} {step:?}: {msg}"), idx));
        }
        stats.steps += 1;
        stats.deliveries += touched.len() as u64;
        for (item, m) in &touched {
            delivered.entry(*item).or_default().push((m.t, val_of(*item, *m)));
        }
        let after = observe(topo, backend.state());

        // judge every item addressed by this delivery
        for (item, _m) in &touched {
            stats.checks += 1;
            let k = KINDS[item.kind()];
            let dl = &delivered[item];
            let max = dl.iter().map(|(tt, _)| *tt).max().expect("non-empty");
            match after.get(item) {
                None | Some(None) => {
                    return Err((
                        format!("{k}_missing_after_delivery"),
                        format!("step #{idx} {step:?}: {item:?} holds nothing; delivered so far {:?}", dl.iter().map(|(tt, _)| *tt).collect::<Vec<_>>()),
                        idx,
                    ));
                }
                Some(Some((held_t, held_v))) => {
                    if *held_t != max {
                        let prev_t = before.get(item).and_then(|o| o.as_ref()).map(|(tt, _)| *tt);
                        let sig = if *held_t > max {
                            "held_timestamp_ahead_of_every_delivery"
                        } else if prev_t.is_some_and(|p| *held_t < p) {
                            "rolled_back_by_older_message"
                        } else {
                            "newer_message_not_applied"
                        };
                        return Err((
                            format!("{k}_{sig}"),
                            format!(
                                "step #{idx} {step:?}: {item:?} holds timestamp {held_t} (before the step: {prev_t:?}) but the greatest timestamp delivered so far is {max}; held value {held_v:?}"
                            ),
                            idx,
                        ));
                    }
                    if !dl.iter().any(|(tt, v)| tt == held_t && v == held_v) {
                        return Err((
                            format!("{k}_held_value_not_delivered_with_held_timestamp"),
                            format!(
                                "step #{idx} {step:?}: {item:?} holds {held_v:?} at timestamp {held_t}; values delivered with that timestamp: {:?}",
                                dl.iter().filter(|(tt, _)| tt == held_t).map(|(_, v)| v).collect::<Vec<_>>()
                            ),
                            idx,
                        ));
                    }
                    // which of two equal-timestamp values survived is free; count it
                    let same_ts: Vec<&Val> = dl.iter().filter(|(tt, _)| tt == held_t).map(|(_, v)| v).collect();
                    if same_ts.len() >= 2 && same_ts.iter().any(|v| *v != held_v) {
                        let first = same_ts.first().is_some_and(|v| *v == held_v);
                        let last = same_ts.last().is_some_and(|v| *v == held_v);
                        let which = match (first, last) {
                            (true, true) => "first_and_latest_arrival",
                            (true, false) => "first_arrival",
                            (false, true) => "latest_arrival",
                            (false, false) => "middle_arrival",
                        };
                        stats.hit(&format!("{k}:equal_ts_holds_{which}"));
                    }
                }
            }
        }
        // isolation: every item not addressed by the step is unchanged
        stats.checks += 1;
        for (item, now) in after.iter() {
            if touched.iter().any(|(it, _)| it == item) {
                continue;
            }
            if before.get(item) != Some(now) {
                return Err((
                    "delivery_changed_another_item".into(),
                    format!("step #{idx} {step:?} changed {item:?}: {:?} -> {now:?}", before.get(item)),
                    idx,
                ));
            }
        }
        for (item, was) in before.iter() {
            if !after.contains_key(item) && !touched.iter().any(|(it, _)| it == item) {
                return Err(("delivery_changed_another_item".into(), format!("step #{idx} {step:?} removed {item:?} (was {was:?})"), idx));
            }
        }
        before = after;

        // LIFE CYCLE: the state is `Serialize + Deserialize` (persisted engine state, audit snapshots): now and then every
        // asset state and the instrument states are replaced by the copies restored from their own JSON, which must equal
        // them; the history carries on with the copies (whose answers to later - possibly stale - deliveries are judged
        // like any other)
        if (idx * 3 + steps.len()) % 7 == 2 {
            stats.checks += 1;
            let st = backend.state_mut();
            let mut all = true;
            for a in 0..topo.n_assets {
                all &= fixtures::persist_and_restore("asset state", st.assets.asset_index_mut(&AssetIndex(a)))
                    .map_err(|why| ("state_changed_by_persisting_and_restoring".to_string(), format!("after step #{idx} {step:?}: asset {a}: {why}"), idx))?;
            }
            all &= fixtures::persist_and_restore("instrument states", &mut st.instruments)
                .map_err(|why| ("state_changed_by_persisting_and_restoring".to_string(), format!("after step #{idx} {step:?}: {why}"), idx))?;
            stats.hit(if all { "lifecycle:state_persisted_and_restored" } else { "lifecycle:part_of_the_state_does_not_serialise_to_json" });
            let now = observe(topo, backend.state());
            if now != before {
                return Err(("state_changed_by_persisting_and_restoring".to_string(), format!("after step #{idx} {step:?}: what the restored state reports differs from what the persisted one reported"), idx));
            }
        }
    }
    Ok(())
}

fn execute(topo: &Topo, via_engine: bool, steps: &[Step], report: &mut Report, label: &str) {
    let mut stats = Stats::default();
    let res = run_history(topo, via_engine, steps, &mut stats);
    report.events_observed += stats.deliveries;
    report.oracle_checks += stats.checks;
    report.info("steps", stats.steps);
    for (c, n) in &stats.cells {
        report.cover_n(c, *n);
    }
    report.cover(if via_engine { "entry:engine_process" } else { "entry:state_update" });
    let nontrivial = stats.deliveries >= 3 && stats.older >= 1 && stats.newer >= 1;
    report.case(fnv1a(format!("{via_engine}{steps:?}").as_bytes()), nontrivial);
    if nontrivial && steps.len() >= 4 && steps.len() <= 12 {
        report.sample(|| json!({"engine": via_engine, "source": label, "steps": steps}));
    }
    if let Err((sig, detail, _)) = res {
        let fails = |cand: &[Step]| matches!(run_history(topo, via_engine, cand, &mut Stats::default()), Err((s, _, _)) if s == sig);
        let mut small = shrink(steps, fails);
        // second stage: drop single entries of full snapshots while the same rule still fires
        let mut k = 0;
        while k < small.len() {
            let (nb, no) = match &small[k] {
                Step::Full { bals, ords, .. } => (bals.len(), ords.len()),
                _ => (0, 0),
            };
            for pos in (0..nb + no).rev() {
                let mut cand = small.clone();
                if let Step::Full { bals, ords, .. } = &mut cand[k] {
                    if bals.len() + ords.len() <= 1 {
                        break;
                    }
                    if pos < nb {
                        bals.remove(pos);
                    } else {
                        ords.remove(pos - nb);
                    }
                }
                if fails(&cand) {
                    small = cand;
                }
            }
            k += 1;
        }
        let detail =match run_history(topo, via_engine, &small, &mut Stats::default()) {
            Err((_, d, _)) => d,
            Ok(()) => detail,
        };
        report.violation(&sig, detail, json!({"engine": via_engine, "steps": small}));
    }
}

// ------------------------------------------------------------------------------------------------
// Generators

/// Message sets of the bounded-exhaustive block (size <= 4, equal timestamps with different values
/// in most of them).
fn exhaustive_sets() -> Vec<Vec<M>> {
    let m = |t: i64, v: i64| M { t, v };
    vec![
        vec![m(5, 1), m(5, 2)],
        vec![m(3, 1), m(7, 2)],
        vec![m(3, 1), m(7, 2), m(7, 3)],
        vec![m(3, 1), m(3, 4), m(7, 2)],
        vec![m(2, 6), m(5, 7), m(9, 8)],
        vec![m(3, 1), m(3, 2), m(7, 3), m(7, 4)],
        vec![m(2, 5), m(5, 6), m(5, 8), m(9, 9)],
        vec![m(1, 11), m(2, 12), m(3, 13), m(4, 14)],
    ]
}

const VARIANTS: [&str; 8] = ["bal_single", "bal_full", "bal_mixed", "ord_single", "ord_full", "ord_cancel", "l1", "trade"];

/// History for one word (sequence over a message set): the primary item receives word[k], a
/// companion item of the same kind at another place receives the word in reverse, interleaved.
fn word_history(topo: &Topo, variant: &str, word: &[M], word_idx: u64) -> Vec<Step> {
    let n = word.len();
    let rot = word_idx as usize;
    let e = rot % 2;
    let other = 1 - e;
    let mut h = Vec::with_capacity(2 * n + 1);
    for k in 0..n {
        let p = word[k];
        let q = word[n - 1 - k];
        match variant {
            "bal_single" => {
                let a = topo.assets_of[e][rot % topo.assets_of[e].len()];
                let b = topo.assets_of[other][(rot / 2) % topo.assets_of[other].len()];
                h.push(Step::Bal { a, m: p });
                h.push(Step::Bal { a: b, m: q });
            }
            "bal_full" => {
                // two balances of one exchange in one full snapshot
                let xs = &topo.assets_of[e];
                let a = xs[rot % xs.len()];
                let b = xs[(rot + 1) % xs.len()];
                h.push(Step::Full { e, bals: vec![(a, p), (b, q)], ords: vec![] });
            }
            "bal_mixed" => {
                let a = topo.assets_of[e][rot % topo.assets_of[e].len()];
                let b = topo.assets_of[other][(rot / 2) % topo.assets_of[other].len()];
                if (k + rot) % 2 == 0 {
                    h.push(Step::Full { e, bals: vec![(a, p)], ords: vec![] });
                    h.push(Step::Bal { a: b, m: q });
                } else {
                    h.push(Step::Bal { a, m: p });
                    h.push(Step::Full { e: other, bals: vec![(b, q)], ords: vec![] });
                }
            }
            "ord_single" | "ord_cancel" => {
                let i = topo.instr_of[e][rot % topo.instr_of[e].len()];
                let j = topo.instr_of[other][(rot / 2) % topo.instr_of[other].len()];
                h.push(Step::Ord { i, c: rot % N_CIDS, m: p });
                if variant == "ord_cancel" && k == (rot / 4) % n {
                    h.push(Step::CancelReq { i, c: rot % N_CIDS });
                }
                h.push(Step::Ord { i: j, c: (rot / 2) % N_CIDS, m: q });
            }
            "ord_full" => {
                // an order report and a balance of the same exchange in one full snapshot; companion
                // order on the exchange's other instrument, delivered in the same snapshot every
                // second step and singly otherwise
                let xs = &topo.instr_of[e];
                let i = xs[rot % xs.len()];
                let j = xs[(rot + 1) % xs.len()];
                let a = topo.assets_of[e][rot % topo.assets_of[e].len()];
                if (k + rot) % 2 == 0 {
                    h.push(Step::Full { e, bals: vec![(a, q)], ords: vec![(i, 0, p), (j, 1, q)] });
                } else {
                    h.push(Step::Full { e, bals: vec![], ords: vec![(i, 0, p)] });
                    h.push(Step::Ord { i: j, c: 1, m: q });
                }
            }
            "l1" => {
                let i = topo.instr_of[e][rot % topo.instr_of[e].len()];
                let j = topo.instr_of[other][(rot / 2) % topo.instr_of[other].len()];
                h.push(Step::L1 { i, m: p });
                h.push(Step::L1 { i: j, m: q });
            }
            "trade" => {
                let i = topo.instr_of[e][rot % topo.instr_of[e].len()];
                let j = topo.instr_of[other][(rot / 2) % topo.instr_of[other].len()];
                h.push(Step::Trade { i, m: p });
                h.push(Step::Trade { i: j, m: q });
                if k % 2 == 1 {
                    // trades and top-of-book of one instrument share the data state: interleave
                    h.push(Step::L1 { i, m: q });
                }
            }
            _ => unreachable!(),
        }
    }
    h
}

/// All words of length 1..=set.len()+extra over `set`, worker-strided; returns the word count.
fn enumerate_words(set: &[M], extra: usize, counter: &mut u64, w: usize, n_workers: usize, mut f: impl FnMut(&[M], u64)) -> u64 {
    let n = set.len() as u64;
    let mut total = 0;
    let mut word: Vec<M> = Vec::new();
    for len in 1..=(set.len() + extra) {
        let words = n.pow(len as u32);
        total += words;
        for idx in 0..words {
            let my = *counter % n_workers as u64 == w as u64;
            *counter += 1;
            if !my {
                continue;
            }
            word.clear();
            let mut x = idx;
            for _ in 0..len {
                word.push(set[(x % n) as usize]);
                x /= n;
            }
            f(&word, idx);
        }
    }
    total
}

fn random_history(topo: &Topo, rng: &mut Rng, max_len: usize) -> Vec<Step> {
    // the items in play
    let mut items: Vec<Item> = Vec::new();
    for a in 0..topo.n_assets {
        items.push(Item::Bal(a));
    }
    for i in 0..topo.n_instr {
        items.push(Item::L1(i));
        items.push(Item::Trade(i));
        for c in 0..N_CIDS {
            items.push(Item::Ord(i, c));
        }
    }
    rng.shuffle(&mut items);
    items.truncate(rng.range_u(2, 10));
    // per item a pool of 2..=6 messages; few distinct timestamps so that equal ones are frequent
    let t_max = rng.range(2, 8);
    let pools: BTreeMap<Item, Vec<M>> = items
        .iter()
        .map(|it| {
            let n = rng.range_u(2, 6);
            (*it, (0..n).map(|_| M { t: rng.range(1, t_max), v: rng.range(0, 19) }).collect())
        })
        .collect();
    let pool_msg = |rng: &mut Rng, it: &Item| -> M {
        match pools.get(it) {
            Some(p) => *rng.pick(p),
            None => M { t: rng.range(1, t_max), v: rng.range(0, 19) },
        }
    };

    // base schedule
    let mut singles: Vec<(Item, M)> = Vec::new();
    if rng.bool() {
        // every message of every pool in a random permutation, plus duplicates
        for (it, p) in &pools {
            for m in p {
                singles.push((*it, *m));
            }
            for _ in 0..rng.range_u(0, 3) {
                singles.push((*it, *rng.pick(p)));
            }
        }
        rng.shuffle(&mut singles);
        singles.truncate(max_len);
    } else {
        let len = rng.range_u(3, max_len);
        for _ in 0..len {
            let it = *rng.pick(&items);
            singles.push((it, pool_msg(rng, &it)));
        }
    }

    let mut h = Vec::with_capacity(singles.len());
    for (it, m) in singles {
        let via_full = rng.chance(1, 4);
        match it {
            Item::Bal(a) if via_full => {
                let e = topo.asset_exch[a];
                let mut bals = vec![(a, m)];
                for _ in 0..rng.range_u(0, 3) {
                    // may name the same asset again: item-by-item rule
                    let b = *rng.pick(&topo.assets_of[e]);
                    bals.push((b, pool_msg(rng, &Item::Bal(b))));
                }
                let mut ords = Vec::new();
                for _ in 0..rng.range_u(0, 2) {
                    let i = *rng.pick(&topo.instr_of[e]);
                    let c = rng.usize_below(N_CIDS);
                    ords.push((i, c, pool_msg(rng, &Item::Ord(i, c))));
                }
                rng.shuffle(&mut bals);
                h.push(Step::Full { e, bals, ords });
            }
            Item::Bal(a) => h.push(Step::Bal { a, m }),
            Item::Ord(i, c) if via_full => {
                let e = topo.instr_exch[i];
                let mut ords = vec![(i, c, m)];
                for _ in 0..rng.range_u(0, 2) {
                    let j = *rng.pick(&topo.instr_of[e]);
                    let cc = rng.usize_below(N_CIDS);
                    ords.push((j, cc, pool_msg(rng, &Item::Ord(j, cc))));
                }
                rng.shuffle(&mut ords);
                let mut bals = Vec::new();
                for _ in 0..rng.range_u(0, 2) {
                    let b = *rng.pick(&topo.assets_of[e]);
                    bals.push((b, pool_msg(rng, &Item::Bal(b))));
                }
                h.push(Step::Full { e, bals, ords });
            }
            Item::Ord(i, c) => {
                h.push(Step::Ord { i, c, m });
                if rng.chance(1, 12) {
                    h.push(Step::CancelReq { i, c });
                }
            }
            Item::L1(i) => h.push(Step::L1 { i, m }),
            Item::Trade(i) => h.push(Step::Trade { i, m }),
        }
    }
    h
}

fn main() {
    let args = Args::parse();
    let topo = Topo::new();

    if let Some(path) = &args.replay {
        let v: Value = serde_json::from_str(&std::fs::read_to_string(path).expect("read replay")).expect("json");
        let via_engine = v["history"]["engine"].as_bool().unwrap_or(false);
        let steps: Vec<Step> = serde_json::from_value(v["history"]["steps"].clone()).expect("steps");
        let mut report = Report::new("C09");
        if let Some(bad) = steps.iter().find(|s| !topo.in_domain(s)) {
            println!("replay history is outside the domain of C09: {bad:?}");
            std::process::exit(2);
        }
        execute(&topo, via_engine, &steps, &mut report, "replay");
        println!("{}", serde_json::to_string_pretty(&report.to_json()).unwrap());
        std::process::exit(if report.violation_count > 0 { 1 } else { 0 });
    }

    let small = args.tier == "miri" || args.tier == "tsan";
    let extra = if args.is_thorough() { 3 } else { 2 };
    let n_random = match args.tier.as_str() {
        "miri" => 20,
        "tsan" => 200,
        _ => args.size(50_000, 5_000_000),
    };
    let max_len = if args.tier == "miri" { 16 } else { 70 };

    let mut report = run_workers(&args, "C09", |w, n, rng, report| {
        let topo = Topo::new();
        if !small {
            let mut counter = 0u64;
            for set in exhaustive_sets() {
                for variant in VARIANTS {
                    for via_engine in [false, true] {
                        enumerate_words(&set, extra, &mut counter, w, n, |word, idx| {
                            let h = word_history(&topo, variant, word, idx);
                            execute(&topo, via_engine, &h, report, "exhaustive");
                        });
                    }
                }
            }
        }
        for k in 0..Args::share(n_random, w, n) {
            let h = random_history(&topo, rng, max_len);
            execute(&topo, k % 2 == 0, &h, report, "random");
        }
    });

    if !small {
        let words: u64 = exhaustive_sets().iter().map(|s| (1..=(s.len() + extra)).map(|l| (s.len() as u64).pow(l as u32)).sum::<u64>()).sum();
        report.exhaustive_blocks.push(format!(
            "every delivery sequence (with repetition) of length 1..=|set|+{extra} over each of {} message sets of size 2-4 (equal timestamps with different values included) = {words} sequences, for each of the {} delivery variants {VARIANTS:?} and both entry points; a companion item of the same kind elsewhere receives the reversed sequence interleaved",
            exhaustive_sets().len(),
            VARIANTS.len()
        ));
        for k in KINDS {
            for c in CLASSES {
                report.require(&format!("{k}:{c}"));
            }
        }
        for c in [
            "entry:state_update",
            "entry:engine_process",
            "full_snapshot:multi_balance",
            "full_snapshot:with_orders",
            "full_snapshot:balances_and_orders",
            "full_snapshot:older_balance",
            "full_snapshot:older_order",
            "balance:full_after_single",
            "balance:single_after_full",
            "order_open:cancel_in_flight_newer",
            "order_open:cancel_in_flight_older",
            "routing:exchange0",
            "routing:exchange1",
            "interleaved_items",
            "lifecycle:state_persisted_and_restored",
        ] {
            report.require(c);
        }
    }
    std::process::exit(report.finish(args.out.as_deref()));
}
