//! C04 — engine indices and exchange names translate both ways without mix-ups.
//!
//! For random instrument collections (1-4 exchanges, 1-6 instruments each, spot + perpetual with
//! settlement assets, asset names and instrument exchange-names shared between exchanges, shuffled
//! definition order) and for EVERY exchange of the collection the real
//! `generate_execution_instrument_map` / `ExecutionInstrumentMap::find_*` / `AccountEventIndexer`
//! are queried with every global index (own and foreign) and every name (own and foreign); then a
//! real `ExecutionManager` is run around a recording stub client (paused clock) with one open and
//! one cancel per instrument.
//!
//! Ground truth is taken only from `IndexedInstruments::{exchanges,assets,instruments}`: which
//! (index, exchange name) pairs belong to which exchange — pure set reasoning, no model of the
//! map's internals.
//!
//! distinct non-trivial rule: a collection with >= 2 exchanges in which some queried exchange is
//! not the first one; distinct = hash of the sorted definitions.

use barter::execution::{manager::ExecutionManager, request::ExecutionRequest};
use barter_execution::{
    AccountEvent, AccountEventKind, InstrumentAccountSnapshot, UnindexedAccountEvent, UnindexedAccountSnapshot,
    balance::{AssetBalance, Balance},
    indexer::AccountEventIndexer,
    map::generate_execution_instrument_map,
    order::{
        Order, OrderKey, OrderKind, TimeInForce,
        id::{ClientOrderId, OrderId, StrategyId},
        request::{OrderRequestCancel, OrderRequestOpen, RequestCancel, RequestOpen},
        state::{Open, OrderState},
    },
    trade::{AssetFees, Trade, TradeId},
};
use barter_instrument::{
    Side, Underlying,
    asset::{Asset, AssetIndex, name::AssetNameExchange},
    exchange::{ExchangeId, ExchangeIndex},
    index::IndexedInstruments,
    instrument::{
        Instrument, InstrumentIndex,
        kind::{InstrumentKind, perpetual::PerpetualContract},
        name::InstrumentNameExchange,
        quote::InstrumentQuoteAsset,
    },
};
use barter_integration::{channel::mpsc_unbounded, snapshot::Snapshot};
use rust_decimal::Decimal;
use serde::{Deserialize, Serialize};
use serde_json::{Value, json};
use std::{collections::BTreeMap, sync::Arc, time::Duration};
use vharness::{
    Args, Report, Rng, catch,
    fixtures::{self, Reply, ReplyKind, ScriptClient},
    fnv1a, run_workers, shrink,
};

#[derive(Debug, Clone, Serialize, Deserialize, PartialEq, Eq, PartialOrd, Ord)]
struct Def {
    exchange: usize, // index into fixtures::EXCHANGES
    base: String,
    quote: String,
    perp_settle: Option<String>,
    /// a second listing whose exchange names differ from the plain one's ONLY IN CASE ("Btc" vs "BTC",
    /// "BtcUSDT" vs "BTCUSDT" - venues do list such pairs, e.g. GAS / Gas): a different asset and instrument
    #[serde(default)]
    alt_case: bool,
}

fn capitalised(s: &str) -> String {
    let mut c = s.chars();
    c.next().map(|f| f.to_uppercase().collect::<String>() + c.as_str()).unwrap_or_default()
}

fn to_instrument(d: &Def) -> Instrument<ExchangeId, Asset> {
    let ex = fixtures::EXCHANGES[d.exchange];
    match &d.perp_settle {
        None if d.alt_case => Instrument::spot(
            ex,
            format!("{}-{}alt_{}", ex.as_str(), d.base, d.quote),
            format!("{}{}", capitalised(&d.base), d.quote.to_uppercase()),
            Underlying::new(Asset::new(format!("{}alt", d.base), capitalised(&d.base)), Asset::new(d.quote.as_str(), d.quote.to_uppercase())),
            None,
        ),
        None => fixtures::spot(ex, &d.base, &d.quote),
        Some(s) => Instrument::new(
            ex,
            format!("{}-{}_{}_perp", ex.as_str(), d.base, d.quote),
            // same exchange-name shape on every exchange: names collide ACROSS exchanges on purpose
            format!("{}{}-PERP", d.base.to_uppercase(), d.quote.to_uppercase()),
            Underlying::new(Asset::new(d.base.as_str(), d.base.to_uppercase()), Asset::new(d.quote.as_str(), d.quote.to_uppercase())),
            InstrumentQuoteAsset::UnderlyingQuote,
            InstrumentKind::Perpetual(PerpetualContract { contract_size: Decimal::ONE, settlement_asset: Asset::new(s.as_str(), s.to_uppercase()) }),
            None,
        ),
    }
}

type V = (&'static str, String);

struct Outcome {
    checks: u64,
    events: u64,
    cells: Vec<&'static str>,
    nontrivial: bool,
}

fn open_req(e: ExchangeIndex, i: InstrumentIndex, cid: &str) -> OrderRequestOpen {
    OrderRequestOpen {
        key: OrderKey { exchange: e, instrument: i, strategy: StrategyId::new("s"), cid: ClientOrderId::new(cid) },
        state: RequestOpen { side: Side::Buy, price: Decimal::ONE, quantity: Decimal::ONE, kind: OrderKind::Limit, time_in_force: TimeInForce::ImmediateOrCancel },
    }
}

fn run(defs: &[Def]) -> Result<Outcome, V> {
    let ins = catch(|| IndexedInstruments::new(defs.iter().map(to_instrument))).map_err(|m| ("panic_building_indexed_instruments", m))?;
    let mut out = Outcome { checks: 0, events: 0, cells: vec![], nontrivial: false };

    // ground truth
    let n_ex = ins.exchanges().len();
    let all_instr: Vec<(InstrumentIndex, ExchangeId, InstrumentNameExchange)> =
        ins.instruments().iter().map(|k| (k.key, k.value.exchange.value, k.value.name_exchange.clone())).collect();
    let all_assets: Vec<(AssetIndex, ExchangeId, AssetNameExchange)> = ins.assets().iter().map(|k| (k.key, k.value.exchange, k.value.asset.name_exchange.clone())).collect();
    if n_ex >= 2 {
        out.cells.push("two_or_more_exchanges");
    }
    {
        let mut sorted = defs.to_vec();
        sorted.sort();
        if sorted.windows(2).any(|w| w[0] == w[1]) {
            out.cells.push("duplicate_definition_in_input");
        }
    }

    for (pos, ex) in ins.exchanges().iter().enumerate() {
        let (e_idx, e_id) = (ex.key, ex.value);
        let map = catch(|| generate_execution_instrument_map(&ins, e_id)).map_err(|m| ("panic_generating_execution_map", m))?.map_err(|e| ("execution_map_generation_failed", format!("{e_id}: {e}")))?;
        if pos > 0 {
            out.cells.push("queried_exchange_is_not_the_first");
            out.nontrivial = true;
        }
        // exchange translation
        out.checks += 2;
        for other in ins.exchanges() {
            let got_id = map.find_exchange_id(other.key);
            let got_idx = map.find_exchange_index(other.value);
            if other.key == e_idx {
                if got_id.as_ref().ok() != Some(&e_id) || got_idx.as_ref().ok() != Some(&e_idx) {
                    return Err(("own_exchange_not_translated", format!("map of {e_id}: find_exchange_id({e_idx})={got_id:?} find_exchange_index({e_id})={got_idx:?}")));
                }
            } else if got_id.is_ok() || got_idx.is_ok() {
                return Err(("foreign_exchange_translated", format!("map of {e_id} translates {}: {got_id:?} {got_idx:?}", other.value)));
            }
        }
        // instruments: every global index
        // ground truth is keyed by the SPELLING of the names (strings), never by the name types' own Eq / Ord / Hash
        let own_names: Vec<(&InstrumentNameExchange, InstrumentIndex)> = all_instr.iter().filter(|(_, e, _)| *e == e_id).map(|(i, _, n)| (n, *i)).collect();
        let own_names_by_str: BTreeMap<String, InstrumentIndex> = own_names.iter().map(|(n, i)| (n.name().to_string(), *i)).collect();
        if own_names_by_str.keys().any(|a| own_names_by_str.keys().any(|b| a != b && a.eq_ignore_ascii_case(b))) {
            out.cells.push("names_differing_only_in_case_on_one_exchange");
        }
        for (i, e, name) in &all_instr {
            out.checks += 1;
            let got = map.find_instrument_name_exchange(*i);
            if *e == e_id {
                match got {
                    Ok(n) if n.name().as_str() == name.name().as_str() => {}
                    other => {
                        return Err((
                            "instrument_index_translates_to_wrong_name",
                            format!("map of {e_id} (exchange position {pos}): find_instrument_name_exchange({i}) = {other:?}, the instrument was defined as {name}"),
                        ));
                    }
                }
                // round trip index -> name -> index
                match map.find_instrument_index(name) {
                    Ok(back) if back == *i => {}
                    other => return Err(("instrument_round_trip_not_identity", format!("map of {e_id}: {i} -> {name} -> {other:?}"))),
                }
            } else {
                out.cells.push("foreign_instrument_index_queried");
                if let Ok(n) = got {
                    return Err(("foreign_instrument_index_translates", format!("map of {e_id}: foreign {i} (of {e}, {name}) translates to {n}")));
                }
            }
        }
        // instruments: every name
        for (_, e, name) in &all_instr {
            out.checks += 1;
            let got = map.find_instrument_index(name);
            match own_names_by_str.get(name.name().as_str()) {
                Some(want) => {
                    if *e != e_id {
                        out.cells.push("instrument_name_shared_across_exchanges");
                    }
                    if got.as_ref().ok() != Some(want) {
                        return Err(("instrument_name_translates_to_wrong_index", format!("map of {e_id}: find_instrument_index({name}) = {got:?}, own index is {want}")));
                    }
                }
                None => {
                    if got.is_ok() {
                        return Err(("foreign_instrument_name_translates", format!("map of {e_id}: {name} (only on {e}) -> {got:?}")));
                    }
                }
            }
        }
        // assets
        let own_assets: Vec<(&AssetNameExchange, AssetIndex)> = all_assets.iter().filter(|(_, e, _)| *e == e_id).map(|(i, _, n)| (n, *i)).collect();
        let own_assets_by_str: BTreeMap<String, AssetIndex> = own_assets.iter().map(|(n, i)| (n.name().to_string(), *i)).collect();
        for (i, e, name) in &all_assets {
            out.checks += 2;
            let got = map.find_asset_name_exchange(*i);
            if *e == e_id {
                match got {
                    Ok(n) if n.name().as_str() == name.name().as_str() => {}
                    other => {
                        return Err(("asset_index_translates_to_wrong_name", format!("map of {e_id} (exchange position {pos}): find_asset_name_exchange({i}) = {other:?}, defined as {name}")));
                    }
                }
                match map.find_asset_index(name) {
                    Ok(back) if back == *i => {}
                    other => return Err(("asset_round_trip_not_identity", format!("map of {e_id}: {i} -> {name} -> {other:?}"))),
                }
            } else {
                if let Ok(n) = got {
                    return Err(("foreign_asset_index_translates", format!("map of {e_id}: foreign {i} (of {e}, {name}) translates to {n}")));
                }
                let by_name = map.find_asset_index(name);
                match own_assets_by_str.get(name.name().as_str()) {
                    Some(want) => {
                        out.cells.push("asset_name_shared_across_exchanges");
                        if by_name.as_ref().ok() != Some(want) {
                            return Err(("asset_name_translates_to_wrong_index", format!("map of {e_id}: find_asset_index({name}) = {by_name:?}, own index is {want}")));
                        }
                    }
                    None => {
                        if by_name.is_ok() {
                            return Err(("foreign_asset_name_translates", format!("map of {e_id}: {name} (only on {e}) -> {by_name:?}")));
                        }
                    }
                }
            }
        }
        // listing helpers used to subscribe / snapshot: exactly the own names
        out.checks += 1;
        let mut listed: Vec<String> = map.exchange_instruments().map(|n| n.to_string()).collect();
        let mut want: Vec<String> = own_names_by_str.keys().cloned().collect();
        listed.sort();
        want.sort();
        let mut listed_a: Vec<String> = map.exchange_assets().map(|n| n.to_string()).collect();
        let mut want_a: Vec<String> = own_assets_by_str.keys().cloned().collect();
        listed_a.sort();
        want_a.sort();
        if listed != want || listed_a != want_a {
            return Err(("exchange_listing_differs_from_own_entities", format!("map of {e_id}: instruments {listed:?} vs {want:?}; assets {listed_a:?} vs {want_a:?}")));
        }

        // ---- indexer (outbound + inbound)
        let indexer = AccountEventIndexer::new(Arc::new(map));
        for (i, e, name) in &all_instr {
            out.checks += 1;
            let req = open_req(e_idx, *i, "c");
            let got = indexer.order_request(&req);
            if *e == e_id {
                match got {
                    Ok(r) if r.key.instrument == name && r.key.exchange == e_id => {}
                    other => return Err(("order_request_addressed_to_wrong_instrument", format!("indexer of {e_id}: request for {i} ({name}) -> {other:?}"))),
                }
            } else if let Ok(r) = got {
                return Err(("order_request_for_foreign_instrument_translated", format!("indexer of {e_id}: request for foreign {i} ({name} on {e}) -> {}", r.key.instrument)));
            }
        }
        for (name, idx) in &own_names {
            out.checks += 4;
            let trade = Trade {
                id: TradeId::new("t"),
                order_id: OrderId::new("o"),
                instrument: (*name).clone(),
                strategy: StrategyId::new("s"),
                time_exchange: fixtures::t(1),
                side: Side::Buy,
                price: Decimal::ONE,
                quantity: Decimal::ONE,
                fees: AssetFees::quote_fees(Decimal::ZERO),
            };
            let ukey = OrderKey { exchange: e_id, instrument: (*name).clone(), strategy: StrategyId::new("s"), cid: ClientOrderId::new("c") };
            let order = Order {
                key: ukey.clone(),
                side: Side::Buy,
                price: Decimal::ONE,
                quantity: Decimal::ONE,
                kind: OrderKind::Limit,
                time_in_force: TimeInForce::ImmediateOrCancel,
                state: OrderState::active(Open { id: OrderId::new("o"), time_exchange: fixtures::t(1), filled_quantity: Decimal::ZERO }),
            };
            let checks: Vec<(&str, Option<InstrumentIndex>)> = vec![
                ("trade", indexer.trade(trade.clone()).ok().map(|t| t.instrument)),
                ("order_key", indexer.order_key(ukey.clone()).ok().map(|k| k.instrument)),
                (
                    "account_event(trade)",
                    indexer.account_event(UnindexedAccountEvent { exchange: e_id, kind: AccountEventKind::Trade(trade.clone()) }).ok().and_then(|ev| match ev.kind {
                        AccountEventKind::Trade(t) if ev.exchange == e_idx => Some(t.instrument),
                        _ => None,
                    }),
                ),
                (
                    "account_event(order)",
                    indexer.account_event(UnindexedAccountEvent { exchange: e_id, kind: AccountEventKind::OrderSnapshot(Snapshot(order.clone())) }).ok().and_then(|ev| match ev.kind {
                        AccountEventKind::OrderSnapshot(o) if o.0.key.exchange == e_idx => Some(o.0.key.instrument),
                        _ => None,
                    }),
                ),
                (
                    "snapshot",
                    indexer
                        .snapshot(UnindexedAccountSnapshot { exchange: e_id, balances: vec![], instruments: vec![InstrumentAccountSnapshot { instrument: (*name).clone(), orders: vec![order.clone()] }] })
                        .ok()
                        .and_then(|s| s.instruments.first().map(|i| i.instrument)),
                ),
            ];
            for (what, got) in checks {
                if got != Some(*idx) {
                    return Err(("account_event_indexed_onto_wrong_instrument", format!("indexer of {e_id}: {what} naming {name} -> {got:?}, expected {idx}")));
                }
            }
        }
        // a FULL account snapshot of this exchange: every own balance and every own instrument, plus ONE entry the
        // link is not configured for (dust of an untracked asset / an instrument traded by hand) at every position.
        // It is either refused as a whole or every configured entry of it is applied to the asset / instrument it
        // names - never accepted with configured entries missing.
        {
            let mk_bal = |name: &AssetNameExchange| AssetBalance { asset: name.clone(), balance: Balance::new(Decimal::ONE, Decimal::ONE), time_exchange: fixtures::t(1) };
            let mk_ins = |name: &InstrumentNameExchange| InstrumentAccountSnapshot { instrument: name.clone(), orders: vec![] };
            let stranger_asset = AssetNameExchange::from("NOT-CONFIGURED-ASSET");
            let stranger_instr = InstrumentNameExchange::from("NOT-CONFIGURED-INSTRUMENT");
            let want_assets: Vec<AssetIndex> = own_assets.iter().map(|(_, i)| *i).collect();
            let want_instrs: Vec<InstrumentIndex> = own_names.iter().map(|(_, i)| *i).collect();
            for pos in 0..=own_assets.len().max(own_names.len()) {
                for strange_balance in [true, false] {
                    let mut balances: Vec<_> = own_assets.iter().map(|(n, _)| mk_bal(n)).collect();
                    let mut instruments: Vec<_> = own_names.iter().map(|(n, _)| mk_ins(n)).collect();
                    if strange_balance {
                        balances.insert(pos.min(balances.len()), mk_bal(&stranger_asset));
                    } else {
                        instruments.insert(pos.min(instruments.len()), mk_ins(&stranger_instr));
                    }
                    out.checks += 1;
                    match indexer.snapshot(UnindexedAccountSnapshot { exchange: e_id, balances, instruments }) {
                        Err(_) => out.cells.push("full_snapshot_with_unconfigured_entry:refused_as_a_whole"),
                        Ok(snap) => {
                            let got_assets: Vec<AssetIndex> = snap.balances.iter().map(|b| b.asset).collect();
                            let got_instrs: Vec<InstrumentIndex> = snap.instruments.iter().map(|i| i.instrument).collect();
                            if want_assets.iter().any(|a| !got_assets.contains(a)) || want_instrs.iter().any(|i| !got_instrs.contains(i)) || snap.exchange != e_idx {
                                return Err((
                                    "account_snapshot_accepted_with_configured_entries_missing",
                                    format!(
                                        "indexer of {e_id}: a full account snapshot with an unconfigured {} at position {pos} was accepted; balances indexed {got_assets:?} (own assets {want_assets:?}), instruments indexed {got_instrs:?} (own instruments {want_instrs:?})",
                                        if strange_balance { "balance" } else { "instrument entry" }
                                    ),
                                ));
                            }
                            out.cells.push("full_snapshot_with_unconfigured_entry:configured_entries_all_applied");
                        }
                    }
                }
            }
        }
        // inbound events TAGGED with another exchange (a sibling venue sharing asset / instrument names, or one
        // the engine does not track at all) never translate on this link - whichever entry point they take
        {
            let foreign: Vec<ExchangeId> = ins.exchanges().iter().map(|k| k.value).filter(|x| *x != e_id).chain(fixtures::EXCHANGES.iter().copied().filter(|x| !ins.exchanges().iter().any(|k| k.value == *x)).take(1)).collect();
            for other in foreign {
                for (name, _) in own_assets.iter().take(2) {
                    out.checks += 3;
                    let bal = AssetBalance { asset: (*name).clone(), balance: Balance::new(Decimal::ONE, Decimal::ONE), time_exchange: fixtures::t(1) };
                    let via_event = indexer.account_event(UnindexedAccountEvent { exchange: other, kind: AccountEventKind::BalanceSnapshot(Snapshot(bal.clone())) });
                    let via_snapshot = indexer.snapshot(UnindexedAccountSnapshot { exchange: other, balances: vec![bal.clone()], instruments: vec![] });
                    let via_snapshot_event = indexer.account_event(UnindexedAccountEvent { exchange: other, kind: AccountEventKind::Snapshot(UnindexedAccountSnapshot { exchange: other, balances: vec![bal], instruments: vec![] }) });
                    if via_event.is_ok() || via_snapshot.is_ok() || via_snapshot_event.is_ok() {
                        return Err(("event_of_another_exchange_translated", format!("indexer of {e_id}: a balance of {name} tagged {other} translates: balance event ok={}, bare account snapshot ok={}, snapshot event ok={}", via_event.is_ok(), via_snapshot.is_ok(), via_snapshot_event.is_ok())));
                    }
                    out.cells.push("inbound_event_tagged_with_another_exchange");
                }
                for (name, _) in own_names.iter().take(2) {
                    out.checks += 1;
                    let ukey = OrderKey { exchange: other, instrument: (*name).clone(), strategy: StrategyId::new("s"), cid: ClientOrderId::new("c") };
                    if indexer.order_key(ukey).is_ok() {
                        return Err(("event_of_another_exchange_translated", format!("indexer of {e_id}: an order key naming {name} on {other} translates")));
                    }
                }
            }
        }
        // error payloads and cancel responses that NAME an instrument / asset are indexed the same way
        for (name, idx) in &own_names {
            out.checks += 2;
            use barter_execution::{error::{ApiError, UnindexedOrderError}, order::request::OrderResponseCancel};
            let ukey = OrderKey { exchange: e_id, instrument: (*name).clone(), strategy: StrategyId::new("s"), cid: ClientOrderId::new("c") };
            let resp = indexer.order_response_cancel(OrderResponseCancel { key: ukey, state: Err(UnindexedOrderError::Rejected(ApiError::InstrumentInvalid((*name).clone(), "x".into()))) });
            let ok = match &resp {
                Ok(r) => r.key.instrument == *idx && r.key.exchange == e_idx && matches!(&r.state, Err(barter_execution::error::OrderError::Rejected(ApiError::InstrumentInvalid(i, _))) if i == idx),
                Err(_) => false,
            };
            if !ok {
                return Err(("account_event_indexed_onto_wrong_instrument", format!("indexer of {e_id}: cancel response / InstrumentInvalid error naming {name} -> {resp:?}, expected {idx}")));
            }
        }
        for (name, idx) in &own_assets {
            out.checks += 1;
            use barter_execution::error::{ApiError, UnindexedOrderError};
            let got = indexer.order_error(UnindexedOrderError::Rejected(ApiError::BalanceInsufficient((*name).clone(), "x".into())));
            if !matches!(&got, Ok(barter_execution::error::OrderError::Rejected(ApiError::BalanceInsufficient(a, _))) if a == idx) {
                return Err(("balance_indexed_onto_wrong_asset", format!("indexer of {e_id}: BalanceInsufficient error naming {name} -> {got:?}, expected {idx}")));
            }
        }
        for (name, idx) in &own_assets {
            out.checks += 2;
            let bal = AssetBalance { asset: (*name).clone(), balance: Balance::new(Decimal::ONE, Decimal::ONE), time_exchange: fixtures::t(1) };
            let a = indexer.asset_balance(bal.clone()).ok().map(|b| b.asset);
            let b = indexer.account_event(UnindexedAccountEvent { exchange: e_id, kind: AccountEventKind::BalanceSnapshot(Snapshot(bal)) }).ok().and_then(|ev| match ev.kind {
                AccountEventKind::BalanceSnapshot(s) => Some(s.0.asset),
                _ => None,
            });
            if a != Some(*idx) || b != Some(*idx) {
                return Err(("balance_indexed_onto_wrong_asset", format!("indexer of {e_id}: balance naming {name} -> {a:?}/{b:?}, expected {idx}")));
            }
        }

        // ---- a running ExecutionManager around a recording stub client
        let own: Vec<(InstrumentIndex, InstrumentNameExchange)> = all_instr.iter().filter(|(_, e, _)| *e == e_id).map(|(i, _, n)| (*i, n.clone())).collect();
        let rt = tokio::runtime::Builder::new_current_thread().enable_time().start_paused(true).build().expect("runtime");
        let res: Result<(u64, u64), V> = rt.block_on(async {
            let client = ScriptClient::new(|_| Reply::After(Duration::from_millis(5), ReplyKind::Ok));
            let (req_tx, req_rx) = mpsc_unbounded::<ExecutionRequest>();
            let (resp_tx, mut resp_rx) = mpsc_unbounded();
            let manager = ExecutionManager::new(req_rx.into_stream(), Duration::from_secs(1), resp_tx, Arc::new(client.clone()), indexer.clone());
            let handle = tokio::spawn(manager.run());
            let mut checks = 0;
            let mut events = 0;
            for (n, (i, name)) in own.iter().enumerate() {
                let cid_o = format!("o{n}");
                let cid_c = format!("c{n}");
                req_tx.tx.send(ExecutionRequest::Open(open_req(e_idx, *i, &cid_o))).map_err(|_| ("execution_manager_stopped", "request channel closed".to_string()))?;
                req_tx
                    .tx
                    .send(ExecutionRequest::Cancel(OrderRequestCancel {
                        key: OrderKey { exchange: e_idx, instrument: *i, strategy: StrategyId::new("s"), cid: ClientOrderId::new(cid_c.as_str()) },
                        state: RequestCancel { id: None },
                    }))
                    .map_err(|_| ("execution_manager_stopped", "request channel closed".to_string()))?;
                let mut seen = 0;
                while seen < 2 {
                    let ev = match tokio::time::timeout(Duration::from_secs(10), futures::StreamExt::next(&mut resp_rx)).await {
                        Ok(Some(ev)) => ev,
                        _ => {
                            if handle.is_finished() {
                                return Err(("execution_manager_died_translating_own_instrument", format!("manager of {e_id} stopped (panicked) on requests for own {i} ({name})")));
                            }
                            return Err(("execution_manager_gave_no_answer", format!("manager of {e_id}: no response for {i}")));
                        }
                    };
                    events += 1;
                    seen += 1;
                    let barter::execution::AccountStreamEvent::Item(AccountEvent { exchange, kind }) = ev else { continue };
                    let instr = match &kind {
                        AccountEventKind::OrderSnapshot(o) => o.0.key.instrument,
                        AccountEventKind::OrderCancelled(r) => r.key.instrument,
                        _ => InstrumentIndex(usize::MAX),
                    };
                    checks += 1;
                    if exchange != e_idx || instr != *i {
                        return Err(("execution_response_attributed_to_wrong_instrument", format!("manager of {e_id}: response for {i} came back as exchange {exchange} instrument {instr}")));
                    }
                }
                let calls = client.take_calls();
                checks += 1;
                if calls.len() != 2 || calls.iter().any(|c| &c.instrument != name || c.exchange != e_id) {
                    return Err((
                        "exchange_client_received_request_for_wrong_instrument",
                        format!("manager of {e_id}: requests for {i} ({name}) reached the client as {:?}", calls.iter().map(|c| (c.exchange, c.instrument.to_string())).collect::<Vec<_>>()),
                    ));
                }
            }
            let _ = req_tx.tx.send(ExecutionRequest::Shutdown);
            let _ = tokio::time::timeout(Duration::from_secs(10), handle).await;
            Ok((checks, events))
        });
        let (c, e) = res?;
        out.checks += c;
        out.events += e;
        out.cells.push("execution_manager_round_trip");
    }
    Ok(out)
}

const BASES: [&str; 6] = ["btc", "eth", "sol", "xrp", "ada", "doge"];
const QUOTES: [&str; 3] = ["usdt", "usd", "btc"];

fn gen_defs(rng: &mut Rng) -> Vec<Def> {
    let n_ex = rng.range_u(1, 4);
    let mut exchanges: Vec<usize> = (0..fixtures::EXCHANGES.len()).collect();
    rng.shuffle(&mut exchanges);
    exchanges.truncate(n_ex);
    let mut defs = vec![];
    for ex in &exchanges {
        let n = rng.range_u(1, 6);
        for _ in 0..n {
            let base = *rng.pick(&BASES);
            let quote = *rng.pick(&QUOTES);
            if base == quote {
                continue;
            }
            let perp_settle = if rng.chance(1, 3) { Some(rng.pick(&["usdt", "usdc", "btc"]).to_string()) } else { None };
            let alt_case = perp_settle.is_none() && rng.chance(1, 6);
            let d = Def { exchange: *ex, base: base.into(), quote: quote.into(), perp_settle, alt_case };
            // one exchange never lists the same market twice (names must be unique per exchange)
            if defs.iter().any(|x: &Def| x.exchange == d.exchange && x.base == d.base && x.quote == d.quote && x.perp_settle.is_some() == d.perp_settle.is_some() && x.alt_case == d.alt_case) {
                continue;
            }
            defs.push(d);
        }
    }
    if defs.is_empty() {
        defs.push(Def { exchange: exchanges[0], base: "btc".into(), quote: "usdt".into(), perp_settle: None, alt_case: false });
    }
    // the same instrument defined more than once (e.g. the instrument lists of two strategies concatenated):
    // the collection keeps ONE entry per distinct instrument, wherever the repeats sit in the input
    if rng.chance(1, 3) {
        for _ in 0..rng.range_u(1, 3) {
            let d = defs[rng.usize_below(defs.len())].clone();
            defs.push(d);
        }
    }
    rng.shuffle(&mut defs);
    defs
}

// ------------------------------------------------------------------------------------------------
// builder stage: links assembled by the library's own ExecutionBuilder (see vharness::builder_stage)

use vharness::builder_stage::{self, BuilderCase, Claim};

fn judge_builder(case: &BuilderCase) -> Result<(u64, u64, Vec<&'static str>), V> {
    let obs = builder_stage::run_builder_case(case).map_err(|e| if e.starts_with("PANIC") { ("panic_in_engine_process", e) } else { ("HARNESS_builder_stage", e) })?;
    let (mut events, mut checks, mut cells) = (0u64, 0u64, vec![]);
    for o in &obs.reqs {
        events += 1 + o.deliveries.len() as u64 + o.responses.len() as u64;
        checks += 3;
        let what = format!("{} {:?} for instrument #{} = {} on {:?} (exchange index {})", if o.req.open { "open" } else { "cancel" }, o.req.cid, o.instrument_index, o.name_exchange, o.exchange, o.exchange_index);
        // wherever a request arrives, it must be the client of the instrument's own exchange, addressed by
        // that exchange's id and that instrument's exchange name
        for (x, call) in &o.deliveries {
            if *x != o.slot || call.exchange != o.exchange || call.instrument != o.name_exchange {
                return Err(("exchange_client_received_request_for_wrong_instrument", format!("{what}: reached the client of {:?} as ({:?}, {})", builder_stage::LIVE[*x], call.exchange, call.instrument)));
            }
        }
        if !o.linked {
            if !o.deliveries.is_empty() {
                return Err(("exchange_client_received_request_for_wrong_instrument", format!("{what}: the exchange has no execution link, yet the request was delivered: {:?}", o.deliveries)));
            }
            cells.push("builder:exchange_without_link_routes_nowhere");
            continue;
        }
        if o.claim != Claim::Sent || o.deliveries.len() != 1 {
            return Err(("order_request_did_not_reach_its_exchange_client", format!("{what}: the exchange has an execution link (built by ExecutionBuilder, {} of {} exchanges linked) but the engine reports {:?} and the client saw {} calls", obs.n_linked, obs.n_exchanges, o.claim, o.deliveries.len())));
        }
        cells.push("builder:request_reached_own_client");
        if obs.gap_before_linked {
            cells.push("builder:linked_exchange_after_an_unlinked_one");
        }
        // the client's answer comes back indexed onto the same exchange and instrument ...
        if o.responses.len() != 1 || o.responses[0].0 != o.exchange_index || o.responses[0].1 != o.instrument_index {
            return Err(("execution_response_attributed_to_wrong_instrument", format!("{what}: answers came back as (exchange index, instrument index, is_order) {:?}", o.responses)));
        }
        // ... and is applied by the engine to that instrument only
        let cancelled_too = o.req.open && obs.reqs.iter().any(|c| !c.req.open && c.req.cid == o.req.cid);
        if o.req.open && !cancelled_too && o.tracked_on_after_response != vec![o.instrument_index] {
            return Err(("account_event_applied_to_wrong_instrument", format!("{what}: after the exchange's answer the order is tracked on instruments {:?}", o.tracked_on_after_response)));
        }
    }
    Ok((events, checks, cells))
}

fn execute_builder(case: &BuilderCase, report: &mut Report) {
    let h = fnv1a(format!("{case:?}").as_bytes());
    match judge_builder(case) {
        Ok((events, checks, cells)) => {
            report.events_observed += events;
            report.oracle_checks += checks;
            let nontrivial = cells.contains(&"builder:request_reached_own_client") && case.instruments.iter().map(|i| i.0).collect::<std::collections::BTreeSet<_>>().len() >= 2;
            for c in &cells {
                report.cover(c);
            }
            report.case(h, nontrivial);
        }
        Err((sig, detail)) if sig.starts_with("HARNESS_") => report.harness_errors.push(format!("{sig}: {detail}")),
        Err((sig, detail)) => {
            report.case(h, true);
            let small = shrink(&case.requests, |cand| {
                let c = BuilderCase { requests: cand.to_vec(), ..case.clone() };
                matches!(judge_builder(&c), Err((s, _)) if s == sig)
            });
            let c = BuilderCase { requests: small, ..case.clone() };
            let detail = match judge_builder(&c) {
                Err((_, dd)) => dd,
                Ok(_) => detail,
            };
            report.violation(sig, detail, json!({"builder_case": c}));
        }
    }
}

fn execute(defs: &[Def], report: &mut Report) {
    let mut sorted = defs.to_vec();
    sorted.sort();
    let h = fnv1a(format!("{sorted:?}").as_bytes());
    match run(defs) {
        Ok(out) => {
            report.oracle_checks += out.checks;
            report.events_observed += out.events + out.checks;
            for c in &out.cells {
                report.cover(c);
            }
            report.case(h, out.nontrivial);
            if out.nontrivial && defs.len() <= 4 {
                report.sample(|| json!({"defs": defs}));
            }
        }
        Err((sig, detail)) => {
            report.case(h, true);
            let small = shrink(defs, |cand| !cand.is_empty() && matches!(run(cand), Err((s, _)) if s == sig));
            let detail = match run(&small) {
                Err((_, dd)) => dd,
                Ok(_) => detail,
            };
            report.violation(sig, detail, json!({"defs": small}));
        }
    }
}

fn main() {
    let args = Args::parse();
    if let Some(path) = &args.replay {
        let v: Value = serde_json::from_str(&std::fs::read_to_string(path).expect("read replay")).expect("json");
        let mut report = Report::new("C04");
        if !v["history"]["builder_case"].is_null() {
            let case: BuilderCase = serde_json::from_value(v["history"]["builder_case"].clone()).expect("builder case");
            execute_builder(&case, &mut report);
        } else {
            let defs: Vec<Def> = serde_json::from_value(v["history"]["defs"].clone()).expect("defs");
            execute(&defs, &mut report);
        }
        println!("{}", serde_json::to_string_pretty(&report.to_json()).unwrap());
        std::process::exit(if report.violation_count > 0 { 1 } else { 0 });
    }
    let n_cases = match args.tier.as_str() {
        "miri" => 4,
        "tsan" => 50,
        _ => args.size(2_000, 200_000),
    };
    let small = args.tier == "miri";
    let n_builder = match args.tier.as_str() {
        "miri" => 1,
        "tsan" => 16,
        _ => args.size(400, 20_000),
    };
    let mut report = run_workers(&args, "C04", |w, n, rng, report| {
        for _ in 0..Args::share(n_cases, w, n) {
            let defs = gen_defs(rng);
            execute(&defs, report);
        }
        for _ in 0..Args::share(n_builder, w, n) {
            let case = builder_stage::gen_builder_case(rng, small);
            execute_builder(&case, report);
        }
    });
    if args.tier != "miri" {
        for c in [
            "two_or_more_exchanges",
            "queried_exchange_is_not_the_first",
            "foreign_instrument_index_queried",
            "instrument_name_shared_across_exchanges",
            "asset_name_shared_across_exchanges",
            "execution_manager_round_trip",
            "duplicate_definition_in_input",
            "names_differing_only_in_case_on_one_exchange",
            "inbound_event_tagged_with_another_exchange",
            "full_snapshot_with_unconfigured_entry:refused_as_a_whole",
            "builder:request_reached_own_client",
            "builder:linked_exchange_after_an_unlinked_one",
            "builder:exchange_without_link_routes_nowhere",
        ] {
            report.require(c);
        }
    }
    std::process::exit(report.finish(args.out.as_deref()));
}
