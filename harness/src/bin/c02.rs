//! C02 — position size and realised PnL conserve the cash flows of the fills.
//!
//! Generated fill sequences (trend / alternating / boosted exact closes and flips / tiny, normal,
//! huge and mixed magnitudes / zero, proportional and arbitrary fees) are applied to the real
//! `PositionManager::update_from_trade` and, in parallel, to a real `Engine` through
//! `Engine::process(Account(Trade))` (which goes through `InstrumentState::update_from_trade` and
//! reports `EngineOutput::PositionExit`). After EVERY fill an independent ledger (signed net
//! quantity, per-position cash flows and fee shares, total cash flows) is compared with the
//! returned exit record and the open position. Every sequence is also logged for the exact
//! rational re-check in oracles/c02_pnl.py.
//!
//! distinct non-trivial rule: >= 3 fills and >= 2 different transition kinds among
//! {open, increase, reduce, close, flip}; distinct = hash of the fill list.

use barter::{
    EngineEvent,
    engine::{
        EngineOutput, Processor,
        audit::EngineAudit,
        state::{
            position::{Position, PositionExited, PositionManager},
            trading::TradingState,
        },
    },
    execution::AccountStreamEvent,
};
use barter_data::{event::DataKind, subscription::{candle::Candle, liquidation::Liquidation}};
use barter_execution::{
    AccountEvent, AccountEventKind,
    order::id::{OrderId, StrategyId},
    trade::{AssetFees, Trade, TradeId},
};
use barter_instrument::{Side, asset::QuoteAsset, exchange::{ExchangeId, ExchangeIndex}, index::IndexedInstruments, instrument::InstrumentIndex};
use rust_decimal::Decimal;
use serde::{Deserialize, Serialize};
use serde_json::{Value, json};
use std::str::FromStr;
use vharness::{
    Args, Report, Rng, catch,
    fixtures::{self, t},
    fnv1a,
    report::LogSink,
    run_workers, shrink,
};

#[derive(Debug, Clone, Serialize, Deserialize, PartialEq)]
struct Fill {
    id: u32,
    buy: bool,
    p: String,
    q: String,
    fee: String,
}

impl Fill {
    fn dec(&self) -> (Decimal, Decimal, Decimal) {
        (Decimal::from_str(&self.p).unwrap(), Decimal::from_str(&self.q).unwrap(), Decimal::from_str(&self.fee).unwrap())
    }
    fn side(&self) -> Side {
        if self.buy { Side::Buy } else { Side::Sell }
    }
}

fn trade<K: Clone>(f: &Fill, idx: usize, instrument: K) -> Trade<QuoteAsset, K> {
    let (p, q, fee) = f.dec();
    Trade {
        id: TradeId::new(format!("t{}", f.id)),
        order_id: OrderId::new(format!("o{}", f.id)),
        instrument,
        strategy: StrategyId::new("s"),
        // fills are increments, not snapshots: they count whatever their exchange time says. Fills of two orders
        // are routinely reported slightly out of order, so every fourth fill is stamped 2.5 s in the past
        time_exchange: t(idx as i64 * 1000 + 100_000 - if f.id % 4 == 1 { 2_500 } else { 0 }),
        side: f.side(),
        price: p,
        quantity: q,
        fees: AssetFees::quote_fees(fee),
    }
}

fn abs(d: Decimal) -> Decimal {
    d.abs()
}

/// Independent ledger model.
#[derive(Default, Clone)]
struct Ledger {
    net: Decimal,        // signed net quantity (exact)
    cash: Decimal,       // Σ sell p·q − Σ buy p·q − Σ fees  (all fills)
    fees: Decimal,       // Σ fees of all fills
    gross: Decimal,      // Σ |p·q| + Σ fee  (tolerance scale)
    qsum: Decimal,       // Σ q
    n: u32,
    exited_pnl: Decimal, // Σ pnl_realised of exit records
    exited_fees: Decimal,
    // current position's own cash flows (fills split at flips)
    pos_cash: Decimal,
    pos_ids: Vec<u32>,
    pos_qmax: Decimal,
}

fn eps(l: &Ledger) -> Decimal {
    // rounding budget: see DESIGN C02 / comment in oracles/c02_pnl.py
    let n = Decimal::from(l.n + 1);
    n * (Decimal::new(1, 25) + Decimal::new(1, 23) * l.gross + Decimal::new(1, 26) * l.qsum)
}

fn pos_json<K>(p: &Position<QuoteAsset, K>) -> Value {
    json!({
        "side": if p.side == Side::Buy {"buy"} else {"sell"},
        "q": p.quantity_abs.to_string(), "qmax": p.quantity_abs_max.to_string(),
        "avg": p.price_entry_average.to_string(), "pnl": p.pnl_realised.to_string(),
        "fe": p.fees_enter.fees.to_string(), "fx": p.fees_exit.fees.to_string(),
        "trades": p.trades.iter().map(|t| t.0.to_string()).collect::<Vec<_>>(),
    })
}

fn exit_json<K>(p: &PositionExited<QuoteAsset, K>) -> Value {
    json!({
        "side": if p.side == Side::Buy {"buy"} else {"sell"},
        "qmax": p.quantity_abs_max.to_string(),
        "avg": p.price_entry_average.to_string(), "pnl": p.pnl_realised.to_string(),
        "fe": p.fees_enter.fees.to_string(), "fx": p.fees_exit.fees.to_string(),
        "trades": p.trades.iter().map(|t| t.0.to_string()).collect::<Vec<_>>(),
    })
}

fn market_kind(instrument: usize, time_ms: i64, kind: DataKind) -> EngineEvent {
    EngineEvent::Market(barter_data::streams::consumer::MarketStreamEvent::Item(barter_data::event::MarketEvent {
        time_exchange: t(time_ms),
        time_received: fixtures::next_receive_time(),
        exchange: ExchangeId::BinanceSpot,
        instrument: InstrumentIndex(instrument),
        kind,
    }))
}

struct Outcome {
    /// engine-side environment cells observed (market events between fills, orders on the tick of a fill)
    env: Vec<String>,
    kinds: Vec<&'static str>,
    obs: Vec<Value>,
    steps: u64,
    checks: u64,
}

type V = (&'static str, String);

/// Run one fill sequence through the unit driver (and optionally the engine driver) under the
/// monitor. Returns Err((signature, detail)) at the first violated rule.
fn run_sequence(fills: &[Fill], with_engine: bool, want_obs: bool) -> Result<Outcome, V> {
    let mut pm: PositionManager<u64> = PositionManager::default();
    let mut led = Ledger::default();
    let mut out = Outcome { env: vec![], kinds: vec![], obs: vec![], steps: 0, checks: 0 };

    let mut links: Vec<fixtures::RecTx> = vec![];
    let mut engine = if with_engine {
        let instruments = IndexedInstruments::new([
            fixtures::spot(ExchangeId::BinanceSpot, "btc", "usdt"),
            fixtures::spot(ExchangeId::BinanceSpot, "eth", "usdt"),
        ]);
        // engine-side environment, derived from the fills themselves so that replays and shrinks are stable:
        // algorithmic trading is enabled for half of the sequences (the scripted strategy then issues orders
        // on the very tick of some fills), and market events - priced and price-less - arrive between fills
        let enabled = fills.first().map(|f| f.id % 2 == 0).unwrap_or(false);
        let (engine, txs) = fixtures::engine_with_rec_txs(&instruments, if enabled { TradingState::Enabled } else { TradingState::Disabled });
        links = txs;
        Some(engine)
    } else {
        None
    };

    for (idx, f) in fills.iter().enumerate() {
        let (p, q, fee) = f.dec();
        let tr = trade(f, idx, 7u64);
        let prev_net = led.net;
        let prev = pm.current.clone();

        let exit = catch(|| pm.update_from_trade(&tr)).map_err(|m| ("panic_in_position_update", format!("fill #{idx} {f:?}: {m}")))?;
        out.steps += 1;

        // engine path: same fill on instrument 1 of a real engine; must agree with the unit path
        if let Some(engine) = engine.as_mut() {
            // a market event for the instrument before the fill: never touches the position's bookkeeping
            // (only its unrealised estimate), whether or not it carries a price
            let (pf, _, _) = f.dec();
            let t_ms = idx as i64 * 1000 + 99_500;
            let pre: Option<(&'static str, EngineEvent)> = match f.id % 7 {
                0 => Some(("l1_without_levels", fixtures::ev_market_l1(ExchangeId::BinanceSpot, 1, t_ms, None, None))),
                1 => Some(("liquidation", market_kind(1, t_ms, DataKind::Liquidation(Liquidation { side: Side::Sell, price: 1.0, quantity: 1.0, time: t(t_ms) })))),
                2 => Some(("candle", market_kind(1, t_ms, DataKind::Candle(Candle { close_time: t(t_ms), open: 1.0, high: 2.0, low: 0.5, close: 1.5, volume: 3.0, trade_count: 4 })))),
                3 => Some(("public_trade", fixtures::ev_market_trade(ExchangeId::BinanceSpot, 1, t_ms, rust_decimal::prelude::ToPrimitive::to_f64(&pf).unwrap_or(1.0)))),
                4 => Some(("other_instrument", fixtures::ev_market_trade(ExchangeId::BinanceSpot, 0, t_ms, 123.0))),
                _ => None,
            };
            if let Some((what, ev)) = pre {
                let before = engine.state.instruments.instrument_index(&InstrumentIndex(1)).position.current.as_ref().map(pos_json);
                catch(|| engine.process(ev)).map_err(|m| ("panic_in_engine_market_processing", format!("before fill #{idx}: {what}: {m}")))?;
                let after = engine.state.instruments.instrument_index(&InstrumentIndex(1)).position.current.as_ref().map(pos_json);
                out.checks += 1;
                out.steps += 1;
                if before != after {
                    return Err(("market_event_changed_position_bookkeeping", format!("before fill #{idx}: a {what} market event changed the open position {before:?} -> {after:?}")));
                }
                out.env.push(if before.is_some() { format!("market:{what}:with_open_position") } else { format!("market:{what}") });
            }
            let mut link_broken = false;
            if engine.state.trading == TradingState::Enabled && f.id % 3 == 0 {
                engine.strategy.push((vec![], vec![fixtures::req_open(0, (f.id % 2) as usize, &format!("algo{idx}"), Side::Buy, Decimal::ONE, Decimal::ONE)]));
                out.env.push("strategy_issues_orders_on_the_tick_of_a_fill".into());
                // sometimes the execution link is gone on that very tick: the order cannot be delivered (a fatal
                // error in the audit) - what the fill itself did must still be reported
                if f.id % 9 == 0 {
                    links[0].set_mode(fixtures::TxMode::Closed);
                    link_broken = true;
                }
            }
            let ev: EngineEvent = EngineEvent::Account(AccountStreamEvent::Item(AccountEvent {
                exchange: ExchangeIndex(0),
                kind: AccountEventKind::Trade(trade(f, idx, InstrumentIndex(1))),
            }));
            let audit = catch(|| engine.process(ev)).map_err(|m| ("panic_in_engine_trade_processing", format!("fill #{idx}: {m}")))?;
            let exits: Vec<PositionExited<QuoteAsset>> = match audit {
                EngineAudit::Process(pa) => pa
                    .outputs
                    .into_iter()
                    .filter_map(|o| match o {
                        EngineOutput::PositionExit(e) => Some(e),
                        _ => None,
                    })
                    .collect(),
                EngineAudit::FeedEnded => vec![],
            };
            out.checks += 1;
            if exit.is_some() && engine.state.trading == TradingState::Enabled && f.id % 3 == 0 {
                out.env.push("position_closed_on_a_tick_that_also_generated_orders".into());
                if link_broken {
                    out.env.push("position_closed_on_a_tick_whose_orders_could_not_be_delivered".into());
                }
            }
            if link_broken {
                links[0].set_mode(fixtures::TxMode::Healthy);
            }
            if exits.len() != exit.iter().count() {
                return Err(("engine_audit_exit_record_mismatch", format!("fill #{idx}: unit path emitted {} exit, engine audit carries {}", exit.iter().count(), exits.len())));
            }
            if let (Some(a), Some(b)) = (exits.first(), exit.as_ref()) {
                if exit_json(a) != exit_json(b) || a.instrument != InstrumentIndex(1) {
                    return Err(("engine_audit_exit_record_mismatch", format!("fill #{idx}: engine exit {a:?} != unit exit {b:?}")));
                }
            }
            let ecur = &engine.state.instruments.instrument_index(&InstrumentIndex(1)).position.current;
            let same = match (ecur, &pm.current) {
                (None, None) => true,
                (Some(a), Some(b)) => pos_json(a) == pos_json(b) && a.instrument == InstrumentIndex(1),
                _ => false,
            };
            if !same {
                return Err(("engine_position_differs_from_position_manager", format!("fill #{idx}: engine {ecur:?} vs unit {:?}", pm.current)));
            }
            let other = &engine.state.instruments.instrument_index(&InstrumentIndex(0)).position.current;
            if other.is_some() {
                return Err(("fill_changed_another_instrument", format!("fill #{idx}: instrument 0 got a position {other:?}")));
            }
        }

        // LIFE CYCLE: position state is `Serialize + Deserialize` (persisted engine state, audit snapshots): after some
        // fills the position manager - and the engine's state of the instrument - are replaced by the copies restored
        // from their own JSON, which must equal them; the sequence carries on with the copies
        if f.id % 5 == 3 {
            out.checks += 1;
            let mut ok = fixtures::persist_and_restore("position manager", &mut pm).map_err(|why| ("position_state_changed_by_persisting_and_restoring", format!("after fill #{idx} {f:?}: {why}")))?;
            if let Some(engine) = engine.as_mut() {
                ok &= fixtures::persist_and_restore("instrument state", engine.state.instruments.instrument_index_mut(&InstrumentIndex(1)))
                    .map_err(|why| ("position_state_changed_by_persisting_and_restoring", format!("after fill #{idx} {f:?}: engine: {why}")))?;
            }
            if ok {
                out.env.push("lifecycle:position_state_persisted_and_restored".into());
            }
        }

        // ---- ledger update
        let signed = if f.buy { q } else { -q };
        let notional = p * q;
        led.net += signed;
        led.cash += if f.buy { -notional } else { notional };
        led.cash -= fee;
        led.fees += fee;
        led.gross += abs(notional) + abs(fee);
        led.qsum += q;
        led.n += 1;
        let e = eps(&led);

        let crossed = !prev_net.is_zero() && (led.net.is_zero() || (led.net.is_sign_negative() != prev_net.is_sign_negative()));
        let kind = if prev_net.is_zero() {
            "open"
        } else if (prev_net.is_sign_positive()) == f.buy {
            "increase"
        } else if led.net.is_zero() {
            "close"
        } else if crossed {
            "flip"
        } else {
            "reduce"
        };
        out.kinds.push(kind);
        if kind == "reduce" && led.net.abs() < Decimal::new(1, 8) {
            out.env.push("reduce_leaves_sliver_below_1e-8".into());
        }
        if want_obs {
            out.obs.push(json!({"exit": exit.as_ref().map(exit_json), "cur": pm.current.as_ref().map(pos_json)}));
        }

        // (1) side / size == sign / |net|
        out.checks += 1;
        match &pm.current {
            None => {
                if !led.net.is_zero() {
                    return Err(("open_position_missing_for_nonzero_net_quantity", format!("fill #{idx}: net={} but no open position", led.net)));
                }
            }
            Some(cur) => {
                let want_side = if led.net.is_sign_positive() { Side::Buy } else { Side::Sell };
                if led.net.is_zero() || cur.quantity_abs != led.net.abs() || cur.side != want_side {
                    return Err(("open_position_size_or_side_differs_from_net_quantity", format!("fill #{idx}: net={} open=({:?},{})", led.net, cur.side, cur.quantity_abs)));
                }
            }
        }

        // (2) exit record exactly when the net reaches or crosses zero
        out.checks += 1;
        if crossed != exit.is_some() {
            return Err(("exit_record_iff_net_reaches_or_crosses_zero_broken", format!("fill #{idx} ({kind}): prev_net={prev_net} net={} exit emitted={}", led.net, exit.is_some())));
        }

        // per-position cash flow bookkeeping (fill split at a flip, fee pro rata by quantity)
        let tid = format!("t{}", f.id);
        match kind {
            "open" => {
                led.pos_cash = (if f.buy { -notional } else { notional }) - fee;
                led.pos_ids = vec![f.id];
                led.pos_qmax = q;
            }
            "increase" | "reduce" | "close" => {
                led.pos_cash += (if f.buy { -notional } else { notional }) - fee;
                led.pos_ids.push(f.id);
                if led.net.abs() > led.pos_qmax {
                    led.pos_qmax = led.net.abs();
                }
            }
            _ => {}
        }
        if kind == "flip" {
            let closed_q = prev_net.abs();
            let rem_q = led.net.abs();
            // pro rata by quantity; the ratio (<= 1) is formed first: `fee * closed_q` can fall below Decimal's 28
            // decimal places and dividing the rounded product by a tiny `q` would blow that rounding up
            let fee_exit = fee * (closed_q / q);
            let fee_enter = fee * (rem_q / q);
            let closing_cash = led.pos_cash + (if f.buy { -(p * closed_q) } else { p * closed_q }) - fee_exit;
            let ex = exit.as_ref().unwrap();
            out.checks += 3;
            if (ex.pnl_realised - closing_cash).abs() > e {
                return Err(("closed_position_pnl_differs_from_its_cash_flows", format!("fill #{idx} (flip): exit.pnl_realised={} own cash flows={} eps={e}", ex.pnl_realised, closing_cash)));
            }
            let cur = pm.current.as_ref().unwrap();
            if (cur.fees_enter.fees - fee_enter).abs() > e || !cur.fees_exit.fees.is_zero() {
                return Err(("flip_fee_share_of_new_position_wrong", format!("fill #{idx}: new fees_enter={} expected {fee_enter} (fee {fee} x {rem_q}/{q})", cur.fees_enter.fees)));
            }
            if cur.price_entry_average != p || cur.quantity_abs_max != rem_q {
                return Err(("flip_new_position_not_opened_with_remainder", format!("fill #{idx}: new position avg={} qmax={} expected price {p} remainder {rem_q}", cur.price_entry_average, cur.quantity_abs_max)));
            }
            if !ex.trades.iter().any(|x| x.0 == tid) || !cur.trades.iter().any(|x| x.0 == tid) {
                return Err(("fill_id_not_recorded_against_affected_position", format!("fill #{idx} (flip) id {tid}: exit.trades={:?} new.trades={:?}", ex.trades, cur.trades)));
            }
            let want_ids: Vec<String> = led.pos_ids.iter().map(|i| format!("t{i}")).chain([tid.clone()]).collect();
            if ex.trades.iter().map(|x| x.0.to_string()).collect::<Vec<_>>() != want_ids {
                return Err(("closed_position_trade_ids_wrong", format!("fill #{idx}: exit.trades={:?} expected {want_ids:?}", ex.trades)));
            }
            if ex.quantity_abs_max != led.pos_qmax {
                return Err(("closed_position_max_quantity_wrong", format!("fill #{idx}: exit.qmax={} expected {}", ex.quantity_abs_max, led.pos_qmax)));
            }
            led.exited_pnl += ex.pnl_realised;
            led.exited_fees += ex.fees_enter.fees + ex.fees_exit.fees;
            led.pos_cash = (if f.buy { -(p * rem_q) } else { p * rem_q }) - fee_enter;
            led.pos_ids = vec![f.id];
            led.pos_qmax = rem_q;
        } else if kind == "close" {
            let ex = exit.as_ref().unwrap();
            out.checks += 3;
            if (ex.pnl_realised - led.pos_cash).abs() > e {
                return Err(("closed_position_pnl_differs_from_its_cash_flows", format!("fill #{idx} (close): exit.pnl_realised={} own cash flows={} eps={e}", ex.pnl_realised, led.pos_cash)));
            }
            let want_ids: Vec<String> = led.pos_ids.iter().map(|i| format!("t{i}")).collect();
            if ex.trades.iter().map(|x| x.0.to_string()).collect::<Vec<_>>() != want_ids {
                return Err(("closed_position_trade_ids_wrong", format!("fill #{idx}: exit.trades={:?} expected {want_ids:?}", ex.trades)));
            }
            if ex.quantity_abs_max != led.pos_qmax {
                return Err(("closed_position_max_quantity_wrong", format!("fill #{idx}: exit.qmax={} expected {}", ex.quantity_abs_max, led.pos_qmax)));
            }
            led.exited_pnl += ex.pnl_realised;
            led.exited_fees += ex.fees_enter.fees + ex.fees_exit.fees;
            led.pos_cash = Decimal::ZERO;
            led.pos_ids.clear();
            led.pos_qmax = Decimal::ZERO;
        } else {
            let cur = pm.current.as_ref().unwrap();
            out.checks += 2;
            let want_ids: Vec<String> = led.pos_ids.iter().map(|i| format!("t{i}")).collect();
            if cur.trades.iter().map(|x| x.0.to_string()).collect::<Vec<_>>() != want_ids {
                return Err(("fill_id_not_recorded_against_affected_position", format!("fill #{idx} ({kind}): open.trades={:?} expected {want_ids:?}", cur.trades)));
            }
            if cur.quantity_abs_max != led.pos_qmax {
                return Err(("open_position_max_quantity_wrong", format!("fill #{idx}: qmax={} expected {}", cur.quantity_abs_max, led.pos_qmax)));
            }
            // reductions never move the entry average
            if kind == "reduce" {
                if let Some(pv) = &prev {
                    if pv.price_entry_average != cur.price_entry_average {
                        return Err(("entry_average_changed_by_reduction", format!("fill #{idx}: {} -> {}", pv.price_entry_average, cur.price_entry_average)));
                    }
                }
            }
        }

        // (4) conservation: Σ exited pnl + open pnl == cash + signed open qty × avg entry
        out.checks += 2;
        let (open_pnl, open_val, open_fees) = match &pm.current {
            Some(c) => (c.pnl_realised, led.net * c.price_entry_average, c.fees_enter.fees + c.fees_exit.fees),
            None => (Decimal::ZERO, Decimal::ZERO, Decimal::ZERO),
        };
        let lhs = led.exited_pnl + open_pnl;
        let rhs = led.cash + open_val;
        if (lhs - rhs).abs() > e {
            return Err(("realised_pnl_does_not_conserve_cash_flows", format!("fill #{idx} ({kind}): Σexit.pnl+open.pnl={lhs} but sells-buys-fees+open_qty*avg={rhs} (diff {} eps {e})", lhs - rhs)));
        }
        // (5) fee totals
        let fsum = led.exited_fees + open_fees;
        if (fsum - led.fees).abs() > e {
            return Err(("position_fees_do_not_sum_to_fill_fees", format!("fill #{idx}: Σ(fees_enter+fees_exit)={fsum} Σfill fees={}", led.fees)));
        }
    }
    Ok(out)
}

// ------------------------------------------------------------------------------------------------

fn gen_sequence(rng: &mut Rng, next_id: &mut u32) -> Vec<Fill> {
    let n = rng.range_u(1, 60);
    let magnitude = rng.below(5); // 0 tiny, 1 normal, 2 huge, 3 mixed, 4 normal-coarse
    let regime = rng.below(4); // 0 random sides, 1 trend, 2 alternating, 3 accumulate-then-unwind
    let fee_mode = rng.below(3);
    let mut net = Decimal::ZERO;
    let mut fills = Vec::with_capacity(n);
    let mut trend_buy = rng.bool();
    // Prices of one sequence stay within a factor 1e4 of each other (base 1e-5..1e5, factor
    // 0.01..100): the *return* of a closed position is then bounded, which keeps the tear-sheet
    // return statistics inside Decimal's range (a 1e15-fold price move overflows them; that panic
    // belongs to the statistics, not to position accounting, and is out of this property's domain).
    let base_exp = rng.range(-5, 5);
    let base = if base_exp >= 0 { Decimal::from(10i64.pow(base_exp as u32)) } else { Decimal::new(1, (-base_exp) as u32) };
    for i in 0..n {
        let m = if magnitude == 3 { rng.below(3) } else { magnitude };
        let factor = Decimal::new(rng.range(100, 9999), 2) / Decimal::from(if rng.bool() { 1 } else { 100 });
        let mut p = (base * factor).round_dp(8);
        if magnitude == 4 {
            p = Decimal::from(rng.range(1, 20));
        }
        if p < Decimal::new(1, 8) {
            p = Decimal::new(1, 8);
        }
        let mut q = match m {
            0 => rng.decimal_log(5, 6, 8),
            2 => rng.decimal_log(7, 0, 4).max(Decimal::ONE),
            4 => Decimal::from(rng.range(1, 5)),
            _ => rng.decimal_log(7, 2, 8),
        };
        if q.is_zero() {
            q = Decimal::new(1, 8);
        }
        let mut buy = match regime {
            1 => {
                if rng.chance(1, 8) {
                    trend_buy = !trend_buy;
                }
                trend_buy
            }
            2 => i % 2 == 0,
            3 => i < n / 2,
            _ => rng.bool(),
        };
        // boosted exact closes and flips
        if !net.is_zero() {
            let r = rng.below(10);
            if r < 2 {
                buy = net.is_sign_negative();
                q = net.abs();
            } else if r < 4 {
                buy = net.is_sign_negative();
                q = net.abs() + q;
            } else if r < 5 {
                // partial reduce
                buy = net.is_sign_negative();
                let half = (net.abs() / Decimal::TWO).round_dp(8);
                if !half.is_zero() && half < net.abs() {
                    q = half;
                }
            } else if r < 6 {
                // near-total reduce: a sliver of the position stays open (down to 1e-12; a position is open until
                // its net quantity is exactly zero, however small the remainder)
                let sliver = Decimal::new(*rng.pick(&[1i64, 5, 1, 1, 1]), *rng.pick(&[9u32, 9, 12, 8, 6]));
                if net.abs() > sliver {
                    buy = net.is_sign_negative();
                    q = net.abs() - sliver;
                }
            }
        }
        let fee = match fee_mode {
            0 => Decimal::ZERO,
            1 => (p * q * Decimal::new(rng.range(1, 30), 4)).round_dp(12),
            _ => {
                // arbitrary fee, bounded by half the notional: a fee that dwarfs the traded value
                // makes the *return* statistics of the tear sheet overflow Decimal (out of domain)
                if rng.chance(1, 4) {
                    Decimal::ZERO
                } else {
                    (p * q * Decimal::new(rng.range(1, 500_000), 6)).round_dp(20)
                }
            }
        };
        // maker rebates: a fill may carry a negative fee (the venue pays the trader)
        let fee = if !fee.is_zero() && rng.chance(1, 10) { -fee } else { fee };
        net += if buy { q } else { -q };
        *next_id += 1;
        fills.push(Fill { id: *next_id, buy, p: p.normalize().to_string(), q: q.normalize().to_string(), fee: fee.normalize().to_string() });
    }
    fills
}

fn execute(fills: &[Fill], with_engine: bool, report: &mut Report, log: &LogSink) {
    let res = run_sequence(fills, with_engine, log.enabled());
    let h = fnv1a(format!("{fills:?}").as_bytes());
    match res {
        Ok(out) => {
            report.events_observed += out.steps;
            report.oracle_checks += out.checks;
            let mut kinds: Vec<&str> = out.kinds.clone();
            for w in out.kinds.windows(2) {
                report.cover(&format!("{}->{}", w[0], w[1]));
            }
            for k in &out.kinds {
                report.cover(k);
            }
            kinds.sort();
            kinds.dedup();
            let nontrivial = fills.len() >= 3 && kinds.len() >= 2;
            report.case(h, nontrivial);
            if fills.iter().any(|f| f.fee == "0") {
                report.cover("zero_fee");
            }
            if fills.iter().any(|f| f.fee.starts_with('-')) {
                report.cover("negative_fee_(rebate)");
            }
            if fills.iter().any(|f| f.fee != "0") {
                report.cover("nonzero_fee");
            }
            if with_engine {
                report.cover("engine_path");
            }
            for c in &out.env {
                report.cover(c);
            }
            if nontrivial && fills.len() <= 8 {
                report.sample(|| json!({"fills": fills, "kinds": out.kinds}));
            }
            if log.enabled() {
                log.write(&json!({"fills": fills, "obs": out.obs}));
            }
        }
        Err((sig, detail)) => {
            report.case(h, true);
            let small = shrink(fills, |cand| matches!(run_sequence(cand, with_engine, false), Err((s, _)) if s == sig));
            let detail = match run_sequence(&small, with_engine, false) {
                Err((_, d)) => d,
                Ok(_) => detail,
            };
            report.violation(sig, detail, json!({"engine": with_engine, "fills": small}));
        }
    }
}

fn main() {
    let args = Args::parse();
    if let Some(path) = &args.replay {
        let v: Value = serde_json::from_str(&std::fs::read_to_string(path).expect("read replay")).expect("json");
        let fills: Vec<Fill> = serde_json::from_value(v["history"]["fills"].clone()).expect("fills");
        let engine = v["history"]["engine"].as_bool().unwrap_or(true);
        let mut report = Report::new("C02");
        execute(&fills, engine, &mut report, &LogSink::open(None));
        println!("{}", serde_json::to_string_pretty(&report.to_json()).unwrap());
        std::process::exit(if report.violation_count > 0 { 1 } else { 0 });
    }

    let n_seq = match args.tier.as_str() {
        "miri" => 12,
        "tsan" => 200,
        _ => args.size(20_000, 400_000),
    };
    let log = LogSink::open(args.log.as_deref());
    // thorough: only a sample of the sequences is logged for the (slower) exact python re-check
    let log_every: u64 = if args.is_thorough() { 40 } else { 4 };

    let mut report = run_workers(&args, "C02", |w, n, rng, report| {
        let mine = Args::share(n_seq, w, n);
        let mut next_id = (w as u32) * 10_000_000;
        for i in 0..mine {
            let fills = gen_sequence(rng, &mut next_id);
            let sink = if i % log_every == 0 { log.clone() } else { LogSink::open(None) };
            execute(&fills, i % 2 == 0, report, &sink);
        }
    });
    log.flush();
    if args.tier != "miri" {
        for c in ["open", "increase", "reduce", "close", "flip", "flip->reduce", "reduce->increase", "flip->flip", "zero_fee", "nonzero_fee", "negative_fee_(rebate)", "reduce_leaves_sliver_below_1e-8", "lifecycle:position_state_persisted_and_restored", "engine_path", "close->open",
            "market:l1_without_levels:with_open_position", "market:liquidation:with_open_position", "market:candle:with_open_position", "market:public_trade:with_open_position",
            "strategy_issues_orders_on_the_tick_of_a_fill", "position_closed_on_a_tick_that_also_generated_orders", "position_closed_on_a_tick_whose_orders_could_not_be_delivered"] {
            report.require(c);
        }
    }
    std::process::exit(report.finish(args.out.as_deref()));
}
