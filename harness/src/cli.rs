//! Minimal argv parser shared by all property binaries.
//!
//! `cNN --tier quick|thorough|miri|tsan --seed N --threads N --out FILE [--log FILE] [--replay FILE]
//!      [--scale F]`

use std::{collections::BTreeMap, path::PathBuf};

#[derive(Debug, Clone)]
pub struct Args {
    pub tier: String,
    pub seed: u64,
    pub threads: usize,
    pub out: Option<PathBuf>,
    pub log: Option<PathBuf>,
    pub replay: Option<PathBuf>,
    /// multiplies the workload sizes of the tier (used by the sanitizer stages to run tiny loads)
    pub scale: f64,
    pub extra: BTreeMap<String, String>,
}

impl Args {
    pub fn parse() -> Self {
        let mut a = Args {
            tier: "quick".into(),
            seed: 1,
            threads: std::thread::available_parallelism().map(|n| n.get()).unwrap_or(4),
            out: None,
            log: None,
            replay: None,
            scale: 1.0,
            extra: BTreeMap::new(),
        };
        let argv: Vec<String> = std::env::args().skip(1).collect();
        let mut i = 0;
        while i < argv.len() {
            let k = argv[i].as_str();
            let v = argv.get(i + 1).cloned();
            let need = |v: Option<String>| v.unwrap_or_else(|| panic!("missing value for {k}"));
            match k {
                "--tier" => a.tier = need(v),
                "--seed" => a.seed = need(v).parse().expect("seed"),
                "--threads" => a.threads = need(v).parse().expect("threads"),
                "--out" => a.out = Some(PathBuf::from(need(v))),
                "--log" => a.log = Some(PathBuf::from(need(v))),
                "--replay" => a.replay = Some(PathBuf::from(need(v))),
                "--scale" => a.scale = need(v).parse().expect("scale"),
                other if other.starts_with("--") => {
                    a.extra.insert(other.trim_start_matches("--").to_string(), need(v));
                }
                other => panic!("unexpected argument {other}"),
            }
            i += 2;
        }
        a
    }

    pub fn is_thorough(&self) -> bool {
        self.tier == "thorough"
    }

    /// Pick a workload size by tier, then apply `--scale`.
    pub fn size(&self, quick: u64, thorough: u64) -> u64 {
        let base = if self.is_thorough() { thorough } else { quick };
        ((base as f64 * self.scale).ceil() as u64).max(1)
    }

    /// Share of `total` items handled by worker `i` of `n`.
    pub fn share(total: u64, i: usize, n: usize) -> u64 {
        let n = n as u64;
        let i = i as u64;
        total / n + if i < total % n { 1 } else { 0 }
    }
}
