//! "Builder stage" shared by C03 and C04: the execution links are NOT assembled by hand but by the
//! library's own `ExecutionBuilder` (`add_live` per linked exchange -> `build()` -> `init()`), i.e. the
//! path every real system takes. Exchanges tracked by the engine but not traded get no link; the
//! engine's requests travel engine -> `MultiExchangeTxMap` -> real `ExecutionManager` -> a recording
//! `ExecutionClient` per exchange (`LiveClient<X>`), and the clients' answers travel back through the
//! real `AccountEventIndexer` into the merged account channel and are fed to the engine.
//!
//! The stage only OBSERVES; C03 and C04 judge the observations with their own rules.

use crate::fixtures::{self, ClientCall, Reply, ReplyKind, ScriptClient, ScriptRisk, ScriptStrategy, TestClock};
use barter::{
    EngineEvent,
    engine::{
        Engine, EngineOutput, Processor,
        action::ActionOutput,
        audit::EngineAudit,
        command::Command,
        error::EngineError,
        state::trading::TradingState,
    },
    execution::{builder::ExecutionBuilder, request::ExecutionRequest},
};
use barter_data::streams::reconnect::Event as ReconnectEvent;
use barter_execution::{
    AccountEventKind, UnindexedAccountEvent, UnindexedAccountSnapshot,
    balance::AssetBalance,
    client::ExecutionClient,
    error::{UnindexedClientError, UnindexedOrderError},
    order::{
        Order,
        id::ClientOrderId,
        request::{OrderRequestCancel, OrderRequestOpen, UnindexedOrderResponseCancel},
        state::Open,
    },
    trade::Trade,
};
use barter_instrument::{
    Side,
    asset::{QuoteAsset, name::AssetNameExchange},
    exchange::ExchangeId,
    index::IndexedInstruments,
    instrument::{InstrumentIndex, name::InstrumentNameExchange},
};
use barter_integration::{Terminal, channel::UnboundedTx, collection::one_or_many::OneOrMany};
use chrono::{DateTime, Utc};
use rust_decimal::Decimal;
use serde::{Deserialize, Serialize};
use std::time::Duration;

/// The exchanges a builder case may use (ascending `ExchangeId` order is NOT assumed anywhere).
pub const LIVE: [ExchangeId; 4] = [ExchangeId::BinanceSpot, ExchangeId::Coinbase, ExchangeId::Kraken, ExchangeId::Okx];

/// Recording execution client of exchange `LIVE[X]` (one Rust type per exchange because
/// `ExecutionClient::EXCHANGE` is an associated constant).
#[derive(Debug, Clone)]
pub struct LiveClient<const X: usize>(pub ScriptClient);

impl<const X: usize> ExecutionClient for LiveClient<X> {
    const EXCHANGE: ExchangeId = LIVE[X];
    type Config = ScriptClient;
    type AccountStream = futures::stream::Pending<UnindexedAccountEvent>;

    fn new(config: Self::Config) -> Self {
        Self(config)
    }

    async fn account_snapshot(&self, _: &[AssetNameExchange], _: &[InstrumentNameExchange]) -> Result<UnindexedAccountSnapshot, UnindexedClientError> {
        Ok(UnindexedAccountSnapshot { exchange: LIVE[X], balances: vec![], instruments: vec![] })
    }

    async fn account_stream(&self, _: &[AssetNameExchange], _: &[InstrumentNameExchange]) -> Result<Self::AccountStream, UnindexedClientError> {
        Ok(futures::stream::pending())
    }

    async fn cancel_order(&self, request: OrderRequestCancel<ExchangeId, &InstrumentNameExchange>) -> UnindexedOrderResponseCancel {
        self.0.cancel_order(request).await
    }

    async fn open_order(&self, request: OrderRequestOpen<ExchangeId, &InstrumentNameExchange>) -> Order<ExchangeId, InstrumentNameExchange, Result<Open, UnindexedOrderError>> {
        self.0.open_order(request).await
    }

    async fn fetch_balances(&self) -> Result<Vec<AssetBalance<AssetNameExchange>>, UnindexedClientError> {
        Ok(vec![])
    }

    async fn fetch_open_orders(&self) -> Result<Vec<Order<ExchangeId, InstrumentNameExchange, Open>>, UnindexedClientError> {
        Ok(vec![])
    }

    async fn fetch_trades(&self, _: DateTime<Utc>) -> Result<Vec<Trade<QuoteAsset, InstrumentNameExchange>>, UnindexedClientError> {
        Ok(vec![])
    }
}

#[derive(Debug, Clone, Serialize, Deserialize, PartialEq)]
pub struct BReq {
    /// position in `BuilderCase::instruments`
    pub instr: usize,
    pub open: bool,
    pub cid: String,
}

#[derive(Debug, Clone, Serialize, Deserialize, PartialEq)]
pub struct BuilderCase {
    /// (slot into `LIVE`, base, quote) in DEFINITION order (any order, may interleave exchanges)
    pub instruments: Vec<(usize, String, String)>,
    /// per `LIVE` slot: does the exchange get an execution link (`add_live`)?
    pub linked: [bool; 4],
    /// order in which the linked exchanges are added to the builder
    pub add_order: Vec<usize>,
    pub requests: Vec<BReq>,
}

#[derive(Debug, Clone, PartialEq)]
pub enum Claim {
    Sent,
    Failed { unrecoverable: bool },
    NotReported,
}

#[derive(Debug, Clone)]
pub struct ReqObs {
    pub req: BReq,
    pub slot: usize,
    pub exchange: ExchangeId,
    pub exchange_index: usize,
    pub instrument_index: usize,
    pub name_exchange: InstrumentNameExchange,
    pub linked: bool,
    pub claim: Claim,
    pub audit_terminal: bool,
    /// order entry of (instrument, cid) right after the command was processed
    pub state_after: Option<String>,
    /// every instrument whose order table holds this cid right after the command
    pub marked_on: Vec<usize>,
    /// (LIVE slot of the client that received it, the call)
    pub deliveries: Vec<(usize, ClientCall)>,
    /// indexed answers that came back for this cid: (exchange index, instrument index, is order snapshot)
    pub responses: Vec<(usize, usize, bool)>,
    /// every instrument whose order table holds this cid after the answers were fed to the engine
    pub tracked_on_after_response: Vec<usize>,
}

#[derive(Debug, Default)]
pub struct BuilderObs {
    pub reqs: Vec<ReqObs>,
    /// calls whose client order id matches no request (should be none)
    pub stray_calls: Vec<(usize, ClientCall)>,
    pub n_exchanges: usize,
    pub n_linked: usize,
    pub gap_before_linked: bool,
    /// final `Command::CancelOrders(InstrumentFilter::None)` issued once every answer has been applied:
    /// the orders tracked right before it (instrument index, client order id, exchange order id if Open,
    /// already cancel-in-flight?, LIVE slot, linked?)
    pub tracked_before_cancel_all: Vec<(usize, String, Option<String>, bool, usize, bool)>,
    /// cancels the clients received for it: (LIVE slot of the client, call)
    pub cancel_all_calls: Vec<(usize, ClientCall)>,
    /// what the command's audit reports: (requests sent, errors)
    pub cancel_all_claim: (usize, usize),
}

pub type BuilderEngine = Engine<TestClock, fixtures::DefState, barter::engine::execution_tx::MultiExchangeTxMap<UnboundedTx<ExecutionRequest>>, ScriptStrategy<fixtures::DefState>, ScriptRisk<fixtures::DefState>>;

pub fn indexed(case: &BuilderCase) -> IndexedInstruments {
    IndexedInstruments::new(case.instruments.iter().map(|(slot, b, q)| fixtures::spot(LIVE[*slot], b, q)))
}

/// Runs the case on a fresh paused-clock current-thread runtime. `Err` = harness / library failure
/// that is not an observation (reported by the callers as they see fit).
pub fn run_builder_case(case: &BuilderCase) -> Result<BuilderObs, String> {
    let rt = tokio::runtime::Builder::new_current_thread().enable_time().start_paused(true).build().map_err(|e| format!("runtime: {e}"))?;
    let out = rt.block_on(run_async(case));
    rt.shutdown_background();
    out
}

async fn run_async(case: &BuilderCase) -> Result<BuilderObs, String> {
    let ins = indexed(case);
    let clients: Vec<ScriptClient> = (0..4).map(|_| ScriptClient::new(|_| Reply::After(Duration::ZERO, ReplyKind::Ok))).collect();
    let present: Vec<bool> = (0..4).map(|x| ins.exchanges().iter().any(|e| e.value == LIVE[x])).collect();

    let mut builder = ExecutionBuilder::new(&ins);
    let timeout = Duration::from_secs(5);
    for x in &case.add_order {
        if !case.linked[*x] || !present[*x] {
            continue;
        }
        builder = match x {
            0 => builder.add_live::<LiveClient<0>>(clients[0].clone(), timeout),
            1 => builder.add_live::<LiveClient<1>>(clients[1].clone(), timeout),
            2 => builder.add_live::<LiveClient<2>>(clients[2].clone(), timeout),
            _ => builder.add_live::<LiveClient<3>>(clients[3].clone(), timeout),
        }
        .map_err(|e| format!("add_live({:?}): {e:?}", LIVE[*x]))?;
    }
    let execution = tokio::time::timeout(Duration::from_secs(600), builder.build().init()).await.map_err(|_| "ExecutionBuild::init did not finish".to_string())?.map_err(|e| format!("ExecutionBuild::init: {e:?}"))?;

    let barter::execution::Execution { execution_txs, mut account_channel, handles: _handles } = execution;
    let mut engine: BuilderEngine = Engine::new(TestClock::new(fixtures::t0()), fixtures::default_state(&ins, TradingState::Disabled), execution_txs, ScriptStrategy::default(), ScriptRisk::default());

    let n_instr = ins.instruments().len();
    let tracked_on = |engine: &BuilderEngine, cid: &str| -> Vec<usize> {
        (0..n_instr).filter(|i| engine.state.instruments.instrument_index(&InstrumentIndex(*i)).orders.0.contains_key(&ClientOrderId::new(cid))).collect()
    };

    let mut obs = BuilderObs { n_exchanges: ins.exchanges().len(), ..Default::default() };
    obs.n_linked = (0..4).filter(|x| case.linked[*x] && present[*x] && case.add_order.contains(x)).count();
    let is_linked = |x: usize| case.linked[x] && present[x] && case.add_order.contains(&x);
    // an exchange without a link that sorts before a linked one: the placeholder entries matter
    let mut seen_unlinked = false;
    for e in ins.exchanges() {
        let slot = LIVE.iter().position(|l| *l == e.value).unwrap();
        if !is_linked(slot) {
            seen_unlinked = true;
        } else if seen_unlinked {
            obs.gap_before_linked = true;
        }
    }

    // NOTE: a fatal delivery error makes the audit terminal (a runner would stop); `process` itself stays
    // usable, and the property speaks about every request, so the stage keeps issuing them.
    for r in &case.requests {
        let (slot, base, quote) = &case.instruments[r.instr];
        let exchange = LIVE[*slot];
        let want = fixtures::spot(exchange, base, quote);
        let Some(ki) = ins.instruments().iter().find(|k| k.value.exchange.value == exchange && k.value.name_internal == want.name_internal) else {
            return Err(format!("instrument {base}_{quote} of {exchange:?} missing from IndexedInstruments"));
        };
        let instrument_index = ki.key.index();
        let exchange_index = ki.value.exchange.key.index();
        let mut o = ReqObs {
            req: r.clone(),
            slot: *slot,
            exchange,
            exchange_index,
            instrument_index,
            name_exchange: ki.value.name_exchange.clone(),
            linked: is_linked(*slot),
            claim: Claim::NotReported,
            audit_terminal: false,
            state_after: None,
            marked_on: vec![],
            deliveries: vec![],
            responses: vec![],
            tracked_on_after_response: vec![],
        };
        let event: EngineEvent = if r.open {
            EngineEvent::Command(Command::SendOpenRequests(OneOrMany::One(fixtures::req_open(exchange_index, instrument_index, &r.cid, Side::Buy, Decimal::from(100), Decimal::from(2)))))
        } else {
            EngineEvent::Command(Command::SendCancelRequests(OneOrMany::One(fixtures::req_cancel(exchange_index, instrument_index, &r.cid, None))))
        };
        let audit = crate::catch(|| engine.process(event)).map_err(|m| format!("PANIC in Engine::process for {r:?}: {m}"))?;
        o.audit_terminal = audit.is_terminal();
        if let EngineAudit::Process(pa) = &audit {
            for out in pa.outputs.iter() {
                let (sent, errs): (usize, Vec<bool>) = match out {
                    EngineOutput::Commanded(ActionOutput::OpenOrders(s)) => (s.sent.iter().count(), s.errors.iter().map(|(_, e)| matches!(e, EngineError::Unrecoverable(_))).collect()),
                    EngineOutput::Commanded(ActionOutput::CancelOrders(s)) => (s.sent.iter().count(), s.errors.iter().map(|(_, e)| matches!(e, EngineError::Unrecoverable(_))).collect()),
                    _ => continue,
                };
                if sent > 0 {
                    o.claim = Claim::Sent;
                } else if let Some(u) = errs.first() {
                    o.claim = Claim::Failed { unrecoverable: *u };
                }
            }
        }
        o.state_after = engine.state.instruments.instrument_index(&InstrumentIndex(instrument_index)).orders.0.get(&ClientOrderId::new(r.cid.as_str())).map(|x| fixtures::active_state_name(&x.state).to_string());
        o.marked_on = tracked_on(&engine, &r.cid);
        obs.reqs.push(o);
    }

    // let the managers deliver and the answers come back (virtual time; nothing else is runnable)
    for _ in 0..3 {
        tokio::time::sleep(Duration::from_millis(20)).await;
    }
    for (x, c) in clients.iter().enumerate() {
        for call in c.take_calls() {
            match obs.reqs.iter_mut().find(|o| o.req.cid == call.cid.0.as_str() && o.req.open == call.is_open) {
                Some(o) => o.deliveries.push((x, call)),
                None => obs.stray_calls.push((x, call)),
            }
        }
    }
    while let Ok(ev) = account_channel.rx.rx.try_recv() {
        let ReconnectEvent::Item(account) = ev else { continue };
        let (cid, instr, is_order) = match &account.kind {
            AccountEventKind::OrderSnapshot(s) => (s.0.key.cid.0.to_string(), s.0.key.instrument.index(), true),
            AccountEventKind::OrderCancelled(r) => (r.key.cid.0.to_string(), r.key.instrument.index(), false),
            _ => continue,
        };
        let ex = account.exchange.index();
        crate::catch(|| engine.process(EngineEvent::Account(ReconnectEvent::Item(account.clone())))).map_err(|m| format!("PANIC in Engine::process for account answer: {m}"))?;
        if let Some(o) = obs.reqs.iter_mut().find(|o| o.req.cid == cid && o.req.open == is_order) {
            o.responses.push((ex, instr, is_order));
        }
    }
    for o in obs.reqs.iter_mut() {
        o.tracked_on_after_response = tracked_on(&engine, &o.req.cid);
    }

    // ---- cancel everything (C19 through the builder-built links)
    let slot_of_exchange = |e: ExchangeId| LIVE.iter().position(|l| *l == e).unwrap();
    for (i, ki) in ins.instruments().iter().enumerate() {
        let slot = slot_of_exchange(ki.value.exchange.value);
        for (cid, o) in engine.state.instruments.instrument_index(&InstrumentIndex(i)).orders.0.iter() {
            let (id, cancelling) = match &o.state {
                barter_execution::order::state::ActiveOrderState::Open(open) => (Some(open.id.0.to_string()), false),
                barter_execution::order::state::ActiveOrderState::OpenInFlight(_) => (None, false),
                barter_execution::order::state::ActiveOrderState::CancelInFlight(_) => (None, true),
            };
            obs.tracked_before_cancel_all.push((i, cid.0.to_string(), id, cancelling, slot, is_linked(slot)));
        }
    }
    let audit = crate::catch(|| engine.process(EngineEvent::Command(Command::CancelOrders(barter::engine::state::instrument::filter::InstrumentFilter::None)))).map_err(|m| format!("PANIC in Engine::process for CancelOrders(None): {m}"))?;
    if let EngineAudit::Process(pa) = &audit {
        for out in pa.outputs.iter() {
            if let EngineOutput::Commanded(ActionOutput::CancelOrders(s)) = out {
                obs.cancel_all_claim = (s.sent.iter().count(), s.errors.iter().count());
            }
        }
    }
    for _ in 0..3 {
        tokio::time::sleep(Duration::from_millis(20)).await;
    }
    for (x, c) in clients.iter().enumerate() {
        for call in c.take_calls() {
            obs.cancel_all_calls.push((x, call));
        }
    }
    Ok(obs)
}

/// Random builder case: 2-4 exchanges in random definition order, 1-3 instruments each (base/quote
/// names shared between exchanges), a random subset linked (biased towards "an unlinked exchange
/// sorts before a linked one"), one or two requests per instrument with globally unique ids.
pub fn gen_builder_case(rng: &mut crate::Rng, small: bool) -> BuilderCase {
    let n_ex = if small { 2 } else { rng.range_u(2, 4) };
    let mut slots: Vec<usize> = vec![0, 1, 2, 3];
    for i in (1..4).rev() {
        slots.swap(i, rng.usize_below(i + 1));
    }
    slots.truncate(n_ex);
    let bases = ["btc", "eth", "sol", "ada"];
    let quotes = ["usdt", "usd", "btc"];
    let mut instruments: Vec<(usize, String, String)> = vec![];
    for s in &slots {
        for _ in 0..rng.range_u(1, if small { 2 } else { 3 }) {
            let b = *rng.pick(&bases);
            let q = *rng.pick(&quotes);
            if b != q && !instruments.iter().any(|(x, bb, qq)| x == s && bb == b && qq == q) {
                instruments.push((*s, b.to_string(), q.to_string()));
            }
        }
        if !instruments.iter().any(|(x, _, _)| x == s) {
            instruments.push((*s, "btc".into(), "usdt".into()));
        }
    }
    // definition order is arbitrary
    for i in (1..instruments.len()).rev() {
        instruments.swap(i, rng.usize_below(i + 1));
    }
    let mut linked = [false; 4];
    for s in &slots {
        linked[*s] = rng.chance(3, 5);
    }
    if rng.chance(1, 2) {
        // force a gap: lowest exchange unlinked, highest linked
        let lo = *slots.iter().min().unwrap();
        let hi = *slots.iter().max().unwrap();
        linked[lo] = false;
        linked[hi] = true;
    }
    let mut add_order: Vec<usize> = slots.clone();
    for i in (1..add_order.len()).rev() {
        add_order.swap(i, rng.usize_below(i + 1));
    }
    let mut requests = vec![];
    let mut n = 0;
    // requests for linked exchanges first (a request for an unlinked one ends the run with a fatal error)
    let mut order: Vec<usize> = (0..instruments.len()).collect();
    order.sort_by_key(|i| !linked[instruments[*i].0]);
    for i in order {
        n += 1;
        requests.push(BReq { instr: i, open: true, cid: format!("b{n}") });
        if linked[instruments[i].0] && rng.chance(1, 2) {
            requests.push(BReq { instr: i, open: false, cid: format!("b{n}") });
        }
    }
    BuilderCase { instruments, linked, add_order, requests }
}
